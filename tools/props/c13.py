"""C13 - local recipients are accepted exactly when the vpopmail mailbox exists, confined to the
domain directory.

Differential tie: harness/h_vpop.c (#includes the real vpop.c, getfile.c, lib/cdb.c, lib/control.c)
runs user_exists() + the following getfile("filterconf") against REAL directory trees built per
request below a private scratch directory (tmpfs when available); the Lean driver runs
QsmtpModel.Vpop.userExists on the abstract tree described by the same request line.  The property
predicate (Spec.Mailbox.checkObs) is evaluated on the implementation's answers: return value
against "mailbox exists", every openat() issued relative to a descriptor, the user directory
descriptor and the filterconf read afterwards against "inside the domain directory"."""
import json, os, shutil, tempfile
import vlib
from vlib import hexs

REQUIRED = ['src_is_repaired', 'exists_iff_mailbox', 'rejected_otherwise', 'result_is_ladder', 'mailboxExists_forms',
            'confined', 'confined_of_shape', 'consulted_inside', 'config_inside', 'domain_lookup',
            'orig_not_confined', 'orig_accepts_foreign_prefix', 'orig_long_name_is_error']

BOUNCE = b'|/home/vpopmail/bin/vdelivermail \'\' bounce-no-mailbox\n'
DOM = b'example.org'
ERRNOS = [13, 12, 23, 24, 5, 40, 20, 21, 36, 2, 1]


def ents(es):
    return ','.join('%s:%s:%s' % (hexs(n), k, '!' if c is None else hexs(c)) for n, k, c in es) or '-'


def cdbval(path, real=DOM):
    return real + b'\0' + b'89\0' + b'89\0' + path + b'\0-\0'


def okname(n):
    return 0 < len(n) <= 255 and b'/' not in n and b'\0' not in n and n not in (b'.', b'..')


def line(local, domain=DOM, tail=None, vpb=BOUNCE, flags=0, cdb=None, dom=(), par=(), inj=()):
    if tail is None:
        tail = b'@' + domain
    if cdb is None:
        cdb = [(b'!' + DOM + b'-', cdbval(b'doms/dom'))]
    cdbs = ','.join(hexs(k) + '=' + hexs(v) for k, v in cdb) if isinstance(cdb, list) else cdb
    seen, dd = set(), []
    for e in dom:                      # a directory cannot hold two entries of one name
        if okname(e[0]) and e[0] not in seen:
            seen.add(e[0]); dd.append(e)
    injs = ','.join('%s:%d' % (p if p in ('#read', '#mmap') else hexs(p), e) for p, e in inj) or '-'
    return 'ue %s %s %s %s %d %s %s %s %s' % (hexs(local), hexs(tail), hexs(domain), '!' if vpb is None else hexs(vpb),
                                              flags, cdbs, ents(dd), ents(par), injs)


def cdb_hash(k):
    h = 5381
    for c in k:
        h = ((h + (h << 5)) ^ c) & 0xffffffff
    return h


def cdb_image(recs):
    """the bytes of a constant database as cdbmake/qmail-newu write it (records in order, 256 tables)"""
    import struct
    data = b''
    pos = 2048
    slots = [[] for _ in range(256)]
    for k, v in recs:
        h = cdb_hash(k)
        slots[h & 255].append((h, pos))
        data += struct.pack('<II', len(k), len(v)) + k + v
        pos += 8 + len(k) + len(v)
    head = b''
    tables = b''
    for t in range(256):
        n = 2 * len(slots[t])
        head += struct.pack('<II', pos + len(tables), n)
        tab = [(0, 0)] * n
        for h, p in slots[t]:
            i = (h >> 8) % n
            while tab[i][1]:
                i = (i + 1) % n
            tab[i] = (h, p)
        tables += b''.join(struct.pack('<II', h, p) for h, p in tab)
    return head + data + tables


def colons(b):
    return b.replace(b'.', b':')


def candidates(local, tail):
    """entries of the domain directory that could make `local` a mailbox, and near misses"""
    c = []
    c.append(('dir', (local, 'd', b'user-filterconf\n')))
    c.append(('dirnofc', (local, 'd', None)))
    c.append(('file', (local, 'f', b'x')))
    c.append(('qm', (b'.qmail-' + colons(local), 'f', b'&x@example.net\n')))
    c.append(('qmdef', (b'.qmail-' + colons(local) + b'-default', 'f', b'|prog\n')))
    if b'.' in local:
        c.append(('qm-rawdots', (b'.qmail-' + local, 'f', b'x')))
        c.append(('qmdef-rawdots', (b'.qmail-' + local + b'-default', 'f', b'x')))
    if b':' in local:
        c.append(('qm-dotted', (b'.qmail-' + local.replace(b':', b'.'), 'f', b'x')))
    buf = local + tail
    for i, ch in enumerate(buf):
        if ch == 0x2d:
            kind = 'prefix' if i < len(local) else 'prefix-beyond-local'
            c.append((kind, (b'.qmail-' + colons(buf[:i]) + b'-default', 'f', b'x')))
    for i in range(1, min(len(local), 6)):
        if local[i:i + 1] != b'-':
            c.append(('prefix-nodash', (b'.qmail-' + colons(local[:i]) + b'-default', 'f', b'x')))
    c.append(('qm-dir', (b'.qmail-' + colons(local), 'd', None)))
    c.append(('upper', (local.upper(), 'd', None)))
    return [(k, e) for k, e in c if okname(e[0])]


CATCHALL = [('none', None), ('bounce', BOUNCE), ('bounce-nolf', BOUNCE[:-1]), ('bounce-more', BOUNCE + b'x'),
            ('bounce-twice', BOUNCE + BOUNCE), ('bounce-nul', BOUNCE + b'\0junk'), ('other', b'|/home/vpopmail/bin/vdelivermail \'\' postmaster\n'),
            ('empty', b''), ('prefix-of-bounce', BOUNCE[:10])]
PARENT = [(b'filterconf', 'f', b'MARKER-OUTSIDE\n'), (b'.qmail-default', 'f', b'outside\n'), (b'sibling', 'd', b'sibling-fc\n')]
DOMFC = (b'filterconf', 'f', b'domain-filterconf\n')


def gen_cases(ctx):
    rng = ctx.rng
    quick = ctx.quick()
    cases = []

    def add(l, tag):
        cases.append(l); ctx.count('shape:' + tag)

    def catchall(which=None):
        k, c = which or rng.choice(CATCHALL)
        return [] if c is None else [(b'.qmail-default', 'f', c)]

    # (a) exhaustive small scope: every local part over {a . - /} up to length 4 (5 thorough)
    #     x {empty directory, each candidate entry alone, two random combinations} x catch-all kinds
    alpha = [b'a', b'.', b'-', b'/']
    locs = [b'']
    allocs = []
    for _ in range(5 if quick else 6):
        locs = [l + c for l in locs for c in alpha]
        allocs += locs
    for local in allocs:
        tail = rng.choice([b'@' + DOM, b'@my-dom.example.org', b'@a-b-c.org'])
        cand = candidates(local, tail)
        layouts = [[]] + [[e] for _, e in cand]
        for _ in range(2):
            layouts.append([e for _, e in cand if rng.random() < 0.4])
        if quick:
            layouts = [layouts[0]] + rng.sample(layouts[1:], min(4, len(layouts) - 1))
        for lay in layouts:
            add(line(local, tail=tail, dom=lay + catchall() + [DOMFC], par=PARENT,
                     vpb=rng.choice([BOUNCE, BOUNCE, None])), 'exhaustive')
    # each candidate kind alone, on a few fixed locals, with every catch-all kind and vpopbounce present/absent
    for local in [b'user', b'first.last', b'list-sub-x', b'a.b-c.d-e', b'"quoted:x"', b'.', b'..', b'.x', b'..x', b'-', b'--', b'a-']:
        tail = b'@my-dom.example.org'
        for kind, e in [('nothing', None)] + candidates(local, tail):
            for ca in CATCHALL:
                for vpb in (BOUNCE, None):
                    if quick and rng.random() < 0.5:
                        continue
                    add(line(local, tail=tail, dom=([e] if e else []) + catchall(ca) + [DOMFC], par=PARENT, vpb=vpb), 'forms:' + kind)
    # (b) structured mostly valid: realistic local parts, random subsets of the candidates
    words = [b'postmaster', b'info', b'john', b'j.doe', b'list', b'owner', b'sub', b'ml', b'a', b'b', b'x.y.z', b'"q d"', b'+tag', b'=', b'0']
    n_struct = 8000 if quick else 250000
    for _ in range(n_struct):
        parts = [rng.choice(words) for _ in range(rng.randrange(1, 5))]
        local = rng.choice([b'-', b'.', b'-', b'']).join(parts) if rng.random() < 0.9 else rng.choice([b'.', b'..', b'...', b'.-', b'-.'])
        if rng.random() < 0.1:
            local = local.replace(b'a', b'/', 1)
        dompart = rng.choice([DOM, DOM, b'my-dom.example.org', b'a-b-c.d-e.org', b'other.net'])
        tail = b'@' + dompart
        cand = candidates(local, tail)
        lay = [e for _, e in cand if rng.random() < 0.25]
        extra = [(rng.choice(words) + b'x', rng.choice(['d', 'f']), rng.choice([None, b'z'])) for _ in range(rng.randrange(0, 3))]
        extra = [(n, k, (c if k == 'd' else (c or b''))) for n, k, c in extra]
        cdb = None
        r = rng.random()
        if r < 0.5:
            cdb = None
        elif r < 0.8:
            path = rng.choice([b'doms/dom', b'doms/dom/', b'doms/dom///', b'doms//dom', b'./doms/dom', b'doms/../doms/dom', b'doms/./dom/.',
                               b'doms/missing', b'doms/sibling/..//dom', b'doms/filterconf', b'doms/filterconf/', b'nonexistent/dom'])
            cdb = [(b'!' + DOM + b'-', cdbval(path))]
        elif r < 0.9:
            keys = [b'!' + DOM + b'-', b'!' + DOM, DOM + b'-', b'!x' + DOM + b'-', b'!' + DOM[:-1] + b'-', b'!' + DOM.upper() + b'-', b'!other.net-']
            rng.shuffle(keys)
            cdb = [(k, cdbval(rng.choice([b'doms/dom', b'doms/sibling', b'doms/missing']))) for k in keys[:rng.randrange(1, 6)]]
        else:
            cdb = rng.choice(['!', 'dir', '-'])
        domain = DOM if rng.random() < 0.85 else rng.choice([b'other.net', b'example.or', b'xexample.org', b'', b'e' * 259, b'e' * 260, b'e' * 261, b'e' * 262, b'e' * 300])
        add(line(local, domain=domain, tail=tail, dom=lay + extra + catchall() + ([DOMFC] if rng.random() < 0.7 else []), par=PARENT,
                 vpb=rng.choice([BOUNCE, BOUNCE, None, b'', b'x', BOUNCE[:-1]]), cdb=cdb, flags=rng.choice([0, 0, 0, 4])), 'structured')
    # users/cdb as a real constant database image (cdb_hash / cdb_seekmm themselves): many records, several keys in one
    # hash table, duplicate keys (first record wins), near-miss keys, the wanted key first / last / absent
    for _ in range(800 if quick else 15000):
        n = rng.choice([0, 1, 2, 3, 5, 10, 40, 300])
        doms = [b'd%d.example.org' % i for i in range(n)]
        if rng.random() < 0.3:
            doms += [b'x' * rng.randrange(1, 8) for _ in range(n)]
        recs = [(b'!' + d + b'-', cdbval(rng.choice([b'doms/other', b'doms/sibling', b'doms/missing']), d)) for d in doms]
        want = rng.random() < 0.7
        keys = [(b'!' + DOM + b'-', cdbval(rng.choice([b'doms/dom', b'doms/dom/', b'doms/dom'])))] if want else []
        if rng.random() < 0.4:
            keys.append((b'!' + DOM + b'-', cdbval(b'doms/sibling')))          # duplicate: the first one must win
        if rng.random() < 0.5:
            keys += [(b'!' + DOM, cdbval(b'doms/sibling')), (DOM + b'-', cdbval(b'doms/sibling')), (b'!' + DOM + b'--', cdbval(b'doms/sibling'))]
        for kv in keys:
            recs.insert(rng.randrange(len(recs) + 1), kv)
        local = rng.choice([b'user', b'nouser', b'a-b'])
        add(line(local, dom=[(b'user', 'd', b'fc\n'), DOMFC], par=PARENT, cdb='raw:' + cdb_image(recs).hex()), 'cdb-image')
    # probe sequences of cdb_seekmm that wrap around the end of a hash table: many domains, the wanted one is
    # a record that was stored in front of its home slot (the probe has to pass the last slot and go on at slot 0)
    for _ in range(40 if quick else 600):
        n = rng.choice([150, 400, 700])
        doms = list({b'%s%d.example.org' % (rng.choice([b'd', b'w', b'host']), rng.randrange(100000)) for _ in range(n)})
        tabs = {}
        for d in doms:
            h = cdb_hash(b'!' + d + b'-')
            tabs.setdefault(h & 255, []).append((h, d))
        wrapped, last = [], []
        for lst in tabs.values():
            n2 = 2 * len(lst)
            slot = [None] * n2
            for h, d in lst:
                i = home = (h >> 8) % n2
                while slot[i] is not None:
                    i = (i + 1) % n2
                slot[i] = d
                if i < home:
                    wrapped.append(d)
                elif i == n2 - 1:
                    last.append(d)
        pool = wrapped or last or doms
        want = rng.choice(pool)
        absent = rng.random() < 0.15
        recs = [(b'!' + d + b'-', cdbval(b'doms/dom' if d == want else rng.choice([b'doms/other', b'doms/sibling']), d)) for d in doms if not (absent and d == want)]
        local = rng.choice([b'user', b'nouser'])
        add(line(local, domain=want, dom=[(b'user', 'd', b'fc\n'), DOMFC], par=PARENT, cdb='raw:' + cdb_image(recs).hex()),
            'cdb-wrap:' + ('wrapped' if wrapped else 'last-slot' if last else 'plain') + ('-absent' if absent else ''))
    # lengths around every threshold: NAME_MAX - |.qmail-| - |-default| = 240, NAME_MAX - 7 = 248, NAME_MAX = 255
    for L in list(range(236, 260)) + [300, 500, 900, 990, 4070, 4080, 4081, 4082, 4088, 4089, 4090, 4095, 4096, 5000]:
        for shape in ('plain', 'dash', 'dots'):
            if shape == 'plain':
                local = b'a' * L
            elif shape == 'dash':
                local = b'list-' + b'b' * (L - 5)
            else:
                local = (b'ab.' * L)[:L]
            for lay_kind in ('nothing', 'catchall', 'prefix', 'dir'):
                lay = []
                if lay_kind == 'catchall':
                    lay = catchall(('other', b'|x\n'))
                elif lay_kind == 'prefix':
                    lay = [(b'.qmail-list-default', 'f', b'x')]
                elif lay_kind == 'dir':
                    lay = [(local, 'd', b'fc\n')]
                add(line(local, dom=lay + [DOMFC], par=PARENT), 'length:' + lay_kind)
    # (c) malformed / random bytes
    for _ in range(2000 if quick else 60000):
        L = rng.choice([1, 1, 2, 2, 3, 5, 8, 20, 100, 254, 255, 256])
        pool = rng.choice([bytes(range(1, 256)), b'./-a', b'../', b'.:-ab"\\', bytes(range(33, 127))])
        local = bytes(rng.choice(pool) for _ in range(L))
        tail = b'@' + rng.choice([DOM, b'my-dom.org'])
        cand = candidates(local, tail)
        lay = [e for _, e in cand if rng.random() < 0.3]
        add(line(local, tail=tail, dom=lay + catchall() + [DOMFC], par=PARENT, vpb=rng.choice([BOUNCE, None])), 'random')
    # (d) error injection on every probe (EACCES, resource exhaustion, I/O errors), err_control() failing
    for _ in range(4000 if quick else 120000):
        local = rng.choice([b'user', b'a-b-c', b'x.y', b'list-owner', b'u' * 250])
        tail = b'@' + DOM
        cand = candidates(local, tail)
        lay = [e for _, e in cand if rng.random() < 0.2]
        names = [local, b'.qmail-' + colons(local), b'.qmail-' + colons(local) + b'-default', b'.qmail-default',
                 b'doms/dom/', b'users/cdb', b'filterconf'] + [b'.qmail-' + colons(local[:i]) + b'-default' for i, ch in enumerate(local) if ch == 0x2d]
        inj = [(rng.choice(names), rng.choice(ERRNOS)) for _ in range(rng.randrange(1, 3))]
        inj = list({p: e for p, e in inj}.items())
        if rng.random() < 0.15:
            inj.append(('#read', rng.choice([5, 21, 4])))
        if rng.random() < 0.08:
            inj.append(('#mmap', rng.choice([12, 23, 24, 19, 13])))
        add(line(local, tail=tail, dom=lay + catchall() + [DOMFC], par=PARENT, flags=rng.choice([0, 0, 1, 4, 5]), inj=inj,
                 vpb=rng.choice([BOUNCE, None])), 'inject')
    # the same struct userconf used twice (global cache of MAIL FROM): cached domain path, descriptor bookkeeping
    for _ in range(600 if quick else 20000):
        local = rng.choice([b'user', b'nouser', b'a-b-c', b'x.y', b'..', b'a/b'])
        cand = candidates(local, b'@' + DOM)
        lay = [e for _, e in cand if rng.random() < 0.3]
        inj = [(rng.choice([local, b'.qmail-default', b'doms/dom/']), rng.choice(ERRNOS))] if rng.random() < 0.2 else []
        add(line(local, dom=lay + catchall() + ([DOMFC] if rng.random() < 0.5 else []), par=PARENT, flags=2 + rng.choice([0, 0, 4, 1]),
                 inj=inj, vpb=rng.choice([BOUNCE, None]), cdb=rng.choice([None, None, '!', [(b'!' + DOM + b'-', cdbval(b'doms/missing'))]])), 'twice')
    return cases


LINK_SUFFIX = b'~lnk'


def with_symlinks(case, rng):
    """the same tree with some entries of the domain directory reached through a symbolic link: `name` becomes a link to
    `name~lnk`, which holds what `name` held.  A mailbox directory or .qmail file behind a link is still that mailbox
    (seeded change c13-m10 opened directories with O_NOFOLLOW).  The model line stays the unlinked tree."""
    f = case.split(' ')
    if len(f) != 10 or f[0] != 'ue' or f[7] == '-':
        return case
    out = []
    for e in f[7].split(','):
        n, k, c = e.split(':', 2)
        name = bytes.fromhex(n) if n != '-' else b''
        if k in ('d', 'f') and name and len(name) + len(LINK_SUFFIX) <= 255 and rng.random() < 0.5:
            out.append('%s:%s:%s' % (hexs(name + LINK_SUFFIX), k, c))
            out.append('%s:l:%s' % (n, hexs(name + LINK_SUFFIX)))
        else:
            out.append(e)
    f[7] = ','.join(out)
    return ' '.join(f)


def strip_links(case, out):
    return out.replace(LINK_SUFFIX.hex(), '')


def corpus_files():
    """[(file name, [protocol lines])]: every corpus file is its own job, so that each past witness is reported by itself"""
    cdir = os.path.join(vlib.VERIF, 'corpus', 'C13')
    res = []
    if os.path.isdir(cdir):
        for f in sorted(os.listdir(cdir)):
            lines = [ln.strip() for ln in open(os.path.join(cdir, f)) if ln.strip() and not ln.startswith('#')]
            if lines:
                res.append((f, lines))
    return res


def pred(case, impl):
    if not impl.startswith('r='):
        return 'chk_' + case + ' | FAULT'
    return 'chk_' + case + ' | ' + impl


def fields(case):
    t = case.split()
    return {'local': vlib.unhex(t[1]), 'tail': vlib.unhex(t[2]), 'domain': vlib.unhex(t[3])}


def decode(out):
    """human readable form of an answer line"""
    res = []
    for t in out.split():
        k, _, v = t.partition('=')
        try:
            if k in ('dp', 'dom', 'usr') and v != '-':
                v = repr(vlib.unhex(v))
            elif k == 'gf' and ':' in v and not v.split(':')[1].startswith('E'):
                v = v.split(':')[0] + ':' + repr(vlib.unhex(v.split(':')[1]))
            elif k == 'opened' and v != '-':
                v = ','.join('%r/%r' % tuple(vlib.unhex(x) for x in e.split(':')) for e in v.split(','))
        except ValueError:
            pass
        res.append('%s=%s' % (k, v))
    return ' '.join(res)


def known_class(finding, case, impl, clause):
    """class predicates of the three defects found while building this check (see proposed_fixes/C13-*.md);
    they only matter if the integrator records them as status=known instead of applying the repairs."""
    f = fields(case)
    fid = finding.get('id')
    if fid == 'c13-dot-dotdot':
        return f['local'] in (b'.', b'..') and clause.startswith('fails confined')
    if fid == 'c13-dash-scan-overrun':
        return clause.startswith('fails accept-iff-mailbox (no such mailbox') and ' r=4 ' in ' ' + impl + ' ' \
            and b'-' in f['local'] and b'-' in f['tail']
    if fid == 'c13-name-too-long':
        return clause.startswith('fails reject-is-550') and len(f['local']) > 240 and impl.startswith('r=-')
    return False


def scratch_base(ctx):
    for d in ('/dev/shm', ctx.scratch):
        try:
            return tempfile.mkdtemp(prefix='qsv-C13-', dir=d)
        except OSError:
            continue
    return ctx.scratch


MY_ANCHORS = ('qsmtpd/backends/user_vpopm/', 'lib/cdb.c', 'include/qsmtpd/userfilters.h', 'include/qsmtpd/qsmtpd.h', 'system headers', 'Vpop.lean')


def own_anchors_only(ctx):
    """extract.run() reports the broken anchors of every property's generators; only those of the
    files this property is anchored in decide about C13 (the others belong to their own checks)."""
    keep = []
    for u in ctx.unshown:
        if u.startswith('extract:') and not any(a in u for a in MY_ANCHORS):
            ctx.notes.append('not C13: ' + u)
        else:
            keep.append(u)
    ctx.unshown[:] = keep


def run(ctx):
    vlib.lean_prepare(ctx, REQUIRED)
    own_anchors_only(ctx)
    h = vlib.build_harness(ctx, 'h_vpop', libs=())
    base = scratch_base(ctx)
    try:
        if h:
            cmd = ['env', 'H_VPOP_BASE=' + base, h]
            lim = vlib.run_batch(cmd, ['limits'])[0]
            ctx.notes.append('harness limits: ' + lim)
            corr = 'model QsmtpModel.Vpop.userExists/getfile vs vpop.c:user_exists + getfile.c:getfile on real directory trees'
            for f, lines in corpus_files():
                ctx.count('shape:corpus', len(lines))
                vlib.differential(ctx, 'corpus:' + f, cmd, lines, pred=pred, known_class=known_class, corr_name=corr)
            cases = gen_cases(ctx)
            res = vlib.differential(ctx, 'user_exists', cmd, cases, pred=pred, known_class=known_class,
                                    nontrivial=lambda c, o: 'opened=-' not in o,
                                    corr_name='model QsmtpModel.Vpop.userExists/getfile vs vpop.c:user_exists + getfile.c:getfile on real directory trees')
            # the structured cases once more with half of the entries behind symbolic links
            lrng = __import__('random').Random(ctx.seed * 7919 + 13)
            sub = [c for c in cases if ':d:' in c.split(' ')[7] or ':f:' in c.split(' ')[7]]
            sub = lrng.sample(sub, min(len(sub), 3000 if ctx.quick() else 40000))
            linked = {c: with_symlinks(c, lrng) for c in sub}
            vlib.differential(ctx, 'user_exists-symlinks', cmd, sub, hline=lambda c: linked[c], canon_h=strip_links, pred=pred, known_class=known_class,
                              corr_name='model QsmtpModel.Vpop.userExists/getfile vs vpop.c:user_exists + getfile.c:getfile on real directory trees with symbolic links')
            for c, ho, mo in res:          # distribution actually produced: return values, which filterconf level was read
                t = dict(x.split('=', 1) for x in ho.split() if '=' in x)
                r = t.get('r', 'FAULT')
                ctx.count('result:' + (r if r in ('0', '1', '2', '4', '5') else ('error' if r.startswith('-') else r)))
                ctx.count('filterconf-level:' + t.get('gf', '-').split(':')[0])
                ctx.count('fdleak:' + t.get('fdleak', '?'))
                if c.split()[6].startswith('raw:'):
                    ctx.count('cdb-image-result:' + r)
    finally:
        shutil.rmtree(base, ignore_errors=True)
    if not ctx.quick():
        # leanchecker replays the compiled modules; checks of other properties started meanwhile with another QSMTP_SRC
        # regenerate Gen/ in the shared lake directory, so bring it back to this tree under the lock first
        import fcntl, extract
        lock = open(os.path.join(vlib.LEAN, '.lock'), 'w')
        fcntl.flock(lock, fcntl.LOCK_EX)
        try:
            extract.run(vlib.SRC, os.path.join(vlib.LEAN, 'QsmtpModel', 'Gen'))
            r = vlib.sh(['lake', 'build', 'QsmtpModel.Props.C13'], cwd=vlib.LEAN)
            if r.returncode != 0:
                ctx.unshown.append('proof of QsmtpModel.Props.C13 does not check (rebuild before leanchecker)')
            else:
                vlib.leanchecker(ctx, ['QsmtpModel.Props.C13', 'QsmtpModel.Lemmas.Vpop'])
        finally:
            fcntl.flock(lock, fcntl.LOCK_UN)
            lock.close()
    return vlib.finish(ctx, assumptions=[
        'the directory tree answers single-component lookups; symbolic links placed inside the domain directory by its owner are outside the model',
        'users/cdb values hold four NUL terminated fields (written by qmail-newu/vpopmail); users/cdb is a finite map, first record wins',
        'local parts are C strings taken from one command line (no NUL, shorter than the line buffer) and not empty (addrsyntax)',
        'err_control()/err_control2() return netwrite()\'s result; close() succeeds',
        'process runs as root in the sandbox: EACCES and other errno values are injected at the openat() boundary of the harness'])


def replay(ctx, path):
    d = json.load(open(path))
    h = vlib.build_harness(ctx, 'h_vpop', libs=())
    case = d.get('case') or (d.get('correspondence_breaks') or [{}])[0].get('case')
    if not case or not h:
        print('nothing to replay'); return 2
    vlib.lean_prepare(ctx, [])
    base = scratch_base(ctx)
    try:
        out = vlib.run_batch(['env', 'H_VPOP_BASE=' + base, h], [case])[0]
    finally:
        shutil.rmtree(base, ignore_errors=True)
    f = fields(case)
    print('case    :', case[:400])
    print('local   : %r  tail: %r  domain: %r' % (f['local'][:80], f['tail'][:80], f['domain'][:80]))
    print('impl    :', out[:600])
    print('          ' + decode(out))
    if ctx.driver:
        print('model   :', vlib.run_batch(ctx.driver, [case])[0][:600])
        print('property:', vlib.run_batch(ctx.driver, [pred(case, out)])[0])
    return 0
