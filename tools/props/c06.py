"""C06 — Qremote always emits legal SMTP data and always terminates.
(The generators, the harness plumbing and the differential jobs are shared with C07.)"""
import itertools, json, os
import vlib
from vlib import hexs

REQUIRED = ['terminates_full', 'no_fault_full', 'recode_qp_legal', 'wrap_header_no_fault', 'is_multipart_no_fault', 'getfieldlen_no_fault', 'send_plain_no_fault', 'recode_qp_no_fault', 'need_recode_sound', 'legal_data_plain',
            'terminates_partial', 'no_fault_partial', 'legal_data_partial']

ASSUMPTIONS = [
    'message size below 2^31 (int llen / unsigned idx do not wrap)',
    'netnwrite() delivers what it is given; aborts (write_status + net_conn_shutdown) end the process',
    'heloname and QSMTPVERSION are printable ASCII without CR/LF (validated host name, compile-time string)',
    'a MIME boundary contains no NUL (is_multipart() rejects it), so strncmp() in find_boundary() is a byte comparison',
    'LegalData counts a line without the dot added for transparency (RFC 5321 4.5.3.1.6)',
]

EOLS = [b'\r\n', b'\n', b'\r']
LETTERS = b'abcdefghijklmnopqrstuvwxyzC'


# ---------------------------------------------------------------------------------------------
# generators (DESIGN 4.3): structured mostly-valid, malformed/random, exhaustive small scope,
# threshold amplified. Every random choice comes from ctx.rng.

def text_line(rng, n, sp=0.15, hi=0.0, special=0.05, nul=True):
    b = bytearray()
    sp_set = b'.=-_()<>@;:"\\/[]?\x01\x7f' + (b'\x00' if nul else b'')
    for _ in range(n):
        r = rng.random()
        if r < sp:
            b.append(rng.choice(b' \t') if rng.random() < 0.2 else 32)
        elif r < sp + hi:
            b.append(rng.randrange(128, 256))
        elif r < sp + hi + special:
            b.append(rng.choice(sp_set))
        else:
            b.append(rng.choice(LETTERS))
    return bytes(b)


def pick_len(rng, K):
    """line lengths around every extracted constant"""
    r = rng.random()
    if r < 0.40:
        return rng.randrange(0, 30)
    if r < 0.60:
        return rng.randrange(K['soft'] - 4, K['soft'] + 10)
    if r < 0.68:
        return rng.randrange(2 * K['soft'] - 4, 2 * K['soft'] + 16)
    if r < 0.80:
        return rng.randrange(K['maxline'] - 8, K['maxline'] + 8)
    if r < 0.88:
        return rng.randrange(K['wrapbuf'] - 20, K['wrapbuf'] + 12)
    if r < 0.94:
        return rng.randrange(K['plainbuf'] - 15, K['qpbuf'] + 20)
    return rng.randrange(K['wrapmin'] + K['wrapstart'] - 30, K['wrapmin'] + K['wrapstart'] + 340)


def eol(rng, style):
    return style if style else rng.choice(EOLS)


def body(rng, K, nlines, style, hi, longok=True):
    out = bytearray()
    for _ in range(nlines):
        n = pick_len(rng, K)
        if not longok and n > 900:
            n = rng.randrange(0, 80)
        l = bytearray(text_line(rng, n, hi=hi))
        r = rng.random()
        if r < 0.15 and l:
            k = rng.randrange(1, 4)
            l[:k] = b'.' * min(k, len(l))
        if r > 0.8:
            l += rng.choice([b' ', b'\t', b'  ', b' \t'])
        out += l + eol(rng, style)
    return bytes(out)


def header(rng, K, style, cte=None, ctype=None, longhdr=0.1, hi=0.0):
    hs = []
    for _ in range(rng.randrange(0, 4)):
        name = rng.choice([b'Subject', b'X-Foo', b'Comment', b'cc', b'Received', b'.dot'])
        n = rng.randrange(0, 60)
        if rng.random() < longhdr:
            n = rng.choice([rng.randrange(K['wrapmin'] - 12, K['maxline'] + 12), rng.randrange(K['wrapbuf'] - 20, K['wrapbuf'] + 14),
                            rng.randrange(K['wrapmin'] + K['wrapstart'] - 25, K['wrapmin'] + K['wrapstart'] + 30),
                            rng.randrange(2700, 2800)])
        sp = rng.choice([0, 0.001, 0.01, 0.15])
        v = bytearray(text_line(rng, n, sp=sp, hi=hi, special=0.03, nul=False))
        if n > 900 and rng.random() < 0.5:
            # blanks and dots at the places wrap_line() looks at
            for p in (K['wrapstart'] - len(name) - 2, K['wrapstart'] - len(name) - 1, K['wrapshort'], K['wrapmin'] - 1 - len(name)):
                if 0 <= p < len(v) - 1 and rng.random() < 0.6:
                    v[p] = 32
                    if rng.random() < 0.5:
                        v[p + 1] = 46
        hs.append(name + b': ' + bytes(v))
    if cte is not None:
        hs.append(rng.choice([b'Content-Transfer-Encoding: ', b'content-transfer-encoding:']) + cte)
    if ctype is not None:
        hs.append(rng.choice([b'Content-Type: ', b'content-type:', b'CONTENT-TYPE:\t']) + ctype)
    rng.shuffle(hs)
    return b''.join(h + eol(rng, style) for h in hs)


def message(rng, K):
    style = rng.choice([b'\r\n', b'\r\n', b'\n', None, b'\r'])
    hi = rng.choice([0, 0, 0.02, 0.2])
    kind = rng.random()
    tag = 'single'
    if kind < 0.55:
        cte = rng.choice([None, None, b'8bit', b'7bit', b'binary'])
        ct = rng.choice([None, None, b'text/plain', b'text/plain; charset=utf-8', b'text/plain;\r\n charset="x y"',
                         b'text/plain (comment (nested)) ; a=b', b'text/x-\\(y'])
        m = header(rng, K, style, cte, ct, hi=0 if rng.random() < 0.93 else 0.01)
        if rng.random() < 0.9:
            m += eol(rng, style)
        m += body(rng, K, rng.randrange(0, 6), style, hi)
    elif kind < 0.92:
        tag = 'multipart'
        q = rng.random() < 0.4
        blen = rng.choice([1, 3, 10, K['bmax'] - 1, K['bmax'], K['bmax'] + 1])
        alpha = b'abcXYZ019+_-' + (b'= ' if q else b'')
        b = bytes(rng.choice(alpha) for _ in range(blen))
        if b[-1:] == b' ' and rng.random() < 0.9:
            b = b[:-1] + b'x'
        if q and blen >= 3 and rng.random() < 0.15:
            # white space other than a blank inside the quotes: a fold or a TAB (seeded change c06-m10 accepted it, and
            # the boundary lines are written without the line-end repair of send_plain())
            k = rng.randrange(1, blen - 1)
            b = b[:k] + rng.choice([b'\n ', b'\r\n ', b'\t', b'\r ', b'\n']) + b[k + 1:]
        ct = b'multipart/' + rng.choice([b'mixed', b'alternative']) + b';' + rng.choice([b' ', b'\r\n ', b'', b' (c) ']) + \
            rng.choice([b'boundary=', b'Boundary=']) + (b'"' + b + b'"' if q else b)
        if rng.random() < 0.2:
            ct += b'; foo=bar'
        if rng.random() < 0.15:
            ct = b'multipart/mixed; a="q\\"x"; ' + ct.split(b';', 1)[1].strip()
        m = header(rng, K, style, rng.choice([None, b'8bit']), ct)
        m += eol(rng, style)
        m += body(rng, K, rng.randrange(0, 2), style, rng.choice([0, 0, hi]), longok=rng.random() < 0.1)
        for i in range(rng.randrange(0, 4)):
            m += b'--' + b + rng.choice([b'', b'', b' ', b'\t ']) + eol(rng, style)
            m += header(rng, K, style, rng.choice([None, b'8bit']), rng.choice([None, b'text/plain']))
            if rng.random() < 0.95:
                m += eol(rng, style)
            m += body(rng, K, rng.randrange(0, 4), style, hi)
        r = rng.random()
        if r < 0.7:
            # the epilogue: now and then with an over-long line, in front of or behind its first empty line (seeded change
            # c06-m9: need_recode() calls a long line in front of the first empty line a long *header* line)
            m += b'--' + b + b'--' + eol(rng, style)
            if rng.random() < 0.25:
                m += rng.choice([b'', eol(rng, style), b'short' + eol(rng, style)])
                m += text_line(rng, rng.choice([998, 999, 1000, 1210]), hi=0, nul=False) + eol(rng, style)
                m += body(rng, K, rng.randrange(0, 2), style, rng.choice([0, hi]), longok=True)
            else:
                m += body(rng, K, rng.randrange(0, 2), style, rng.choice([0, hi]), longok=False)
        elif r < 0.8:
            m += b'--' + b + b'--'
        elif r < 0.9:
            m += b'--' + b
    else:
        tag = 'random'
        m = bytes(rng.choice(b'a .=\r\n\x80\tC-') for _ in range(rng.randrange(0, 40)))
    r = rng.random()
    if r < 0.1 and m:
        m = m[:rng.randrange(len(m))]
        tag += '-cut'
    elif r < 0.2:
        m = m.rstrip(b'\r\n')
        tag += '-noeol'
    elif r < 0.27:
        m += rng.choice([b' ', b'\r', b'.', b'\t', b'=', b'Content-Type', b'Content-Type: text/plain', b'Content-Transfer-Encoding: 8bit'])
        tag += '-tail'
    return m, tag


def constants():
    """the numbers the generators aim at, read from the regenerated Gen file"""
    import re
    p = os.path.join(vlib.LEAN, 'QsmtpModel', 'Gen', 'QrData.lean')
    t = open(p).read() if os.path.exists(p) else ''
    g = {k: int(v) for k, v in re.findall(r'abbrev (\w+) : Nat := (\d+)', t)}

    def get(n, d):
        return g.get(n) or d
    return {'maxline': get('needRecodeMaxLine', 998), 'soft': get('recodeQpSoft', 72), 'plainbuf': get('sendPlainBuf', 1205),
            'qpbuf': get('recodeQpBuf', 1280), 'wrapbuf': get('wrapLineBuf', 1048), 'wrapmin': get('wrapLineMin', 970),
            'wrapstart': get('wrapLineStart', 800), 'wrapshort': get('wrapLineShort', 50), 'bmax': get('boundaryMax', 70),
            'plainlim': get('sendPlainBuf', 1205) - get('sendPlainSlack', 5), 'qplim': get('recodeQpBuf', 1280) - get('recodeQpSlack', 11)}


def exhaustive(alpha, maxlen):
    for n in range(0, maxlen + 1):
        for t in itertools.product(alpha, repeat=n):
            yield bytes(t)


def amplified(rng, K, alpha, taillen, per):
    """exhaustive tails behind fillers of length T-2 .. T+2 for every threshold T"""
    out = []
    tails = list(exhaustive(alpha, taillen))
    for T in sorted({K['soft'], K['soft'] + 1, K['maxline'], K['maxline'] + 1, K['plainlim'], K['qplim'], K['wrapmin'], K['wrapbuf'] - 3}):
        for d in (-2, -1, 0, 1, 2):
            L = T + d
            if L < 0:
                continue
            for tail in (tails if per is None else rng.sample(tails, min(per, len(tails)))):
                fill = bytes(rng.choice(b'abcdefg') for _ in range(L))
                pre = rng.choice([b'', b'', b'S: x\n\n', b'\x80\n', b'.'])
                out.append(pre + fill + tail)
    return out


def mime_lines(rng, K, n):
    """Content-Type fields (complete lines ending in a line break, as qp_header() passes them)"""
    res = []
    toks = [b'multipart/', b'Multipart/', b'text/', b'mixed', b'plain', b';', b'; ', b'=', b'boundary=', b'BOUNDARY=', b'"', b'\\"', b'(', b')',
            b'\\(', b' ', b'\t', b'\r\n ', b'\n\t', b'abc', b'x', b'charset', b'a' * K['bmax'], b'a' * (K['bmax'] + 1), b'/', b'@', b'\x80', b'--', b"'+_,-./:=?", b'#']
    for _ in range(n):
        r = rng.random()
        if r < 0.5:
            b = bytes(rng.choice(b'abcXYZ019+_-=? ') for _ in range(rng.choice([0, 1, 2, 5, K['bmax'] - 1, K['bmax'], K['bmax'] + 1])))
            q = rng.random() < 0.5
            v = rng.choice([b' ', b'', b'\t', b' (c) ', b'\r\n ']) + b'multipart/' + rng.choice([b'mixed', b'x', b'']) + rng.choice([b';', b'; ', b' ;', b';\r\n\t']) + \
                rng.choice([b'', b'a=b; ', b'a="b c";', b'a=b (c);']) + rng.choice([b'boundary=', b'Boundary=', b'boundary =']) + (b'"' + b + b'"' if q else b) + \
                rng.choice([b'', b';', b' ', b'; x=y', b' (c)'])
        else:
            v = b''.join(rng.choice(toks) for _ in range(rng.randrange(0, 9)))
        res.append(b'Content-Type:' + v + rng.choice([b'\r\n', b'\n', b'\r', b'\r\n', b'']))
    return res


# ---------------------------------------------------------------------------------------------

def canon(c, o):
    t = o.split()
    if not t:
        return o
    if t[0] in ('FAULT', 'HANG', 'hang'):
        return t[0].upper()
    return o


def corpus_lines(prop):
    res = []
    for pr in ('C06', 'C07'):
        cdir = os.path.join(vlib.VERIF, 'corpus', pr)
        if os.path.isdir(cdir):
            for f in sorted(os.listdir(cdir)):
                for line in open(os.path.join(cdir, f)):
                    if line.strip() and not line.startswith('#'):
                        res.append(line.strip())
    return res


class Setup:
    """harness, configuration and case lists shared by C06 and C07"""

    def __init__(self, ctx):
        self.ctx = ctx
        self.h = vlib.build_harness(ctx, 'h_qrdata', libs=())
        self.ver = self.helo = None
        if self.h:
            o = vlib.run_batch(self.h, ['config'])[0].split()
            if len(o) == 3 and o[0] == 'ok':
                self.ver, self.helo = o[1], o[2]
            else:
                ctx.unshown.append('harness h_qrdata: config request failed: %r' % o)
                self.h = None
        self.K = constants()

    def mline(self, c):
        op = c.split()[0]
        return c + ' %s %s' % (self.ver, self.helo) if op in ('send_data', 'send_qp', 'qp_header') else c

    def messages(self, n):
        rng, ctx = self.ctx.rng, self.ctx
        res = []
        for _ in range(n):
            m, tag = message(rng, self.K)
            ctx.count('msg:' + tag)
            ctx.count('len:%s' % ('<100' if len(m) < 100 else '<1000' if len(m) < 1000 else '<3000' if len(m) < 3000 else '>=3000'))
            res.append(m)
        return res


def pred_legal(case, impl):
    t = case.split()
    o = impl.split()
    if not o or o[0] in ('FAULT', 'HANG'):
        return 'chk_outcome ' + (o[0] if o else 'EMPTY')
    if o[0] == 'abort':
        return None        # a permanent failure report is a legal way to finish
    if o[0] == 'ok' and len(o) >= 3:
        return 'chk_legal %s %s' % (t[1], o[2])
    return 'chk_outcome BAD'


def pred_outcome(case, impl):
    o = impl.split()
    if not o or o[0] in ('FAULT', 'HANG'):
        return 'chk_outcome ' + (o[0] if o else 'EMPTY')
    return None


def jobs(ctx, S, pred_data, pred_plain=None, pred_qp=None):
    """the differential jobs; pred_* choose the property predicate evaluated on the implementation's output"""
    quick = ctx.quick()
    rng, K = ctx.rng, S.K
    corp = corpus_lines(ctx.prop)
    ctx.count('shape:corpus', len(corp))
    if corp:
        def pc(case, impl):
            op = case.split()[0]
            if op == 'send_data':
                return pred_data(case, impl)
            if op == 'send_plain' and pred_plain:
                return pred_plain(case, impl)
            if op == 'recode_qp' and pred_qp:
                return pred_qp(case, impl)
            return pred_outcome(case, impl)
        vlib.differential(ctx, 'corpus', S.h, corp, mline=S.mline, canon_h=canon, canon_m=canon, pred=pc,
                          corr_name='model QsmtpModel.QrData vs qremote/qrdata.c, qremote/mime.c (corpus)')
    msgs = S.messages(1300 if quick else 12000)
    cases = ['send_data %d %s' % (e, hexs(m)) for m in msgs for e in (0, 1)]
    vlib.differential(ctx, 'send_data', S.h, cases, mline=S.mline, canon_h=canon, canon_m=canon, pred=pred_data,
                      nontrivial=lambda c, o: o.startswith('ok'),
                      corr_name='model QsmtpModel.QrData.sendData vs qremote/qrdata.c:send_data')
    # exhaustive small scope + threshold amplified
    alpha = [97, 32, 46, 61, 13, 10, 0x80]
    ex = list(exhaustive(alpha, 4 if quick else 6))
    amp = amplified(rng, K, alpha, 2, 12 if quick else None)
    ctx.count('shape:exhaustive', len(ex))
    ctx.count('shape:amplified', len(amp))
    small = ex + amp
    vlib.differential(ctx, 'send_data-small', S.h, ['send_data 0 ' + hexs(m) for m in small], mline=S.mline, canon_h=canon, canon_m=canon,
                      pred=pred_data, corr_name='model QsmtpModel.QrData.sendData vs qremote/qrdata.c:send_data (small scope, thresholds)')
    sub = msgs[:500 if quick else 4000] + amp[::3]
    vlib.differential(ctx, 'recode_qp', S.h, ['recode_qp ' + hexs(m) for m in sub + ex], canon_h=canon, canon_m=canon, pred=pred_qp or pred_outcome,
                      corr_name='model QsmtpModel.QrData.recodeQp vs qremote/qrdata.c:recode_qp')
    vlib.differential(ctx, 'send_plain', S.h, ['send_plain ' + hexs(m) for m in sub + ex], canon_h=canon, canon_m=canon, pred=pred_plain or pred_outcome,
                      corr_name='model QsmtpModel.QrData.sendPlain vs qremote/qrdata.c:send_plain')
    vlib.differential(ctx, 'need_recode', S.h, ['need_recode ' + hexs(m) for m in sub + ex], canon_h=canon, canon_m=canon,
                      corr_name='model QsmtpModel.QrData.needRecode vs qremote/qrdata.c:need_recode')
    # header functions on header-like inputs (no 8 bit: qp_header aborts otherwise)
    hdrs = []
    for _ in range(400 if quick else 4000):
        style = rng.choice([b'\r\n', b'\n', None])
        hdrs.append(header(rng, K, style, rng.choice([None, b'8bit']), rng.choice([None, b'text/plain']), longhdr=0.5) +
                    rng.choice([b'', b'x', b'\r\n', b'\n\nbody', b'Content-Type']))
    vlib.differential(ctx, 'wrap_header', S.h, ['wrap_header ' + hexs(m) for m in hdrs], canon_h=canon, canon_m=canon, pred=pred_outcome,
                      corr_name='model QsmtpModel.QrData.wrapHeader vs qremote/qrdata.c:wrap_header')
    vlib.differential(ctx, 'qp_header', S.h, ['qp_header %s 0 %d %d' % (hexs(m), len(m), rng.randrange(2)) for m in hdrs if m] +
                      ['qp_header %s 0 %d 1' % (hexs(m), len(m)) for m in msgs[:300] if m],
                      mline=S.mline, canon_h=canon, canon_m=canon, pred=pred_outcome,
                      corr_name='model QsmtpModel.QrData.qpHeader vs qremote/qrdata.c:qp_header')
    lines = []
    for _ in range(150 if quick else 1500):
        n = rng.choice([K['maxline'] + 1, K['maxline'] + 2, K['wrapbuf'] - 2, K['wrapbuf'] + 40, K['wrapmin'] + K['wrapstart'] + rng.randrange(-3, 300), 2900])
        l = bytearray(text_line(rng, n, sp=rng.choice([0, 0.002, 0.01, 0.1]), special=0.05, nul=False))
        if rng.random() < 0.3:
            l[0] = 46
        lines.append(bytes(l))
    vlib.differential(ctx, 'wrap_line', S.h, ['wrap_line ' + hexs(m) for m in lines], canon_h=canon, canon_m=canon, pred=pred_outcome,
                      corr_name='model QsmtpModel.QrData.wrapLine vs qremote/qrdata.c:wrap_line')
    vlib.differential(ctx, 'send_qp', S.h, ['send_qp %d %s 0 %d' % (rng.randrange(2), hexs(m), len(m)) for m in msgs[:400 if quick else 3000]],
                      mline=S.mline, canon_h=canon, canon_m=canon, pred=pred_outcome,
                      corr_name='model QsmtpModel.QrData.sendQp vs qremote/qrdata.c:send_qp')
    # mime.c
    ml = mime_lines(rng, K, 1500 if quick else 15000)
    vlib.differential(ctx, 'is_multipart', S.h, ['is_multipart ' + hexs(m) for m in ml], canon_h=canon, canon_m=canon,
                      corr_name='model QsmtpModel.Mime.isMultipart vs qremote/mime.c:is_multipart')
    vals = [m[13:] for m in ml if len(m) > 13]
    for op in ('skipws', 'mime_token', 'mime_param'):
        vlib.differential(ctx, op, S.h, ['%s %s' % (op, hexs(m)) for m in vals[:600 if quick else 6000]], canon_h=canon, canon_m=canon,
                          corr_name='model QsmtpModel.Mime vs qremote/mime.c:%s' % op)
    fl = [m for m in (msgs[:300] + hdrs[:300]) if m]
    vlib.differential(ctx, 'getfieldlen', S.h, ['getfieldlen ' + hexs(m) for m in fl], canon_h=canon, canon_m=canon,
                      corr_name='model QsmtpModel.Mime.getFieldLen vs qremote/mime.c:getfieldlen')
    fb = []
    for _ in range(600 if quick else 6000):
        b = bytes(rng.choice(b'ab-') for _ in range(rng.choice([1, 2, 3, 8])))
        pieces = [b'--' + b, b'--' + b + b'--', b'\r\n', b'\n', b'\r', b'x', b' ', b'-', b'--', b + b'x', b'\t']
        data = b''.join(rng.choice(pieces) for _ in range(rng.randrange(0, 12)))
        fb.append('find_boundary %s %d %d 0 %d' % (hexs(b + data), len(b), len(data), len(b)))
    vlib.differential(ctx, 'find_boundary', S.h, fb, canon_h=canon, canon_m=canon,
                      corr_name='model QsmtpModel.Mime.findBoundary vs qremote/mime.c:find_boundary')


def run(ctx):
    vlib.lean_prepare(ctx, REQUIRED)
    S = Setup(ctx)
    if S.h:
        jobs(ctx, S, pred_legal)
    if not ctx.quick():
        vlib.leanchecker(ctx, ['QsmtpModel.Props.C06'])
    return vlib.finish(ctx, assumptions=ASSUMPTIONS)


def replay(ctx, path, pred=pred_legal):
    d = json.load(open(path))
    S = Setup(ctx)
    case = d.get('case') or (d.get('correspondence_breaks') or [{}])[0].get('case')
    if not case or not S.h:
        print('nothing to replay')
        return 2
    vlib.lean_prepare(ctx, [])
    out = canon(case, vlib.run_batch(S.h, [case])[0])
    print('case    :', case[:300])
    print('impl    :', out[:300])
    if ctx.driver:
        print('model   :', canon(case, vlib.run_batch(ctx.driver, [S.mline(case)])[0])[:300])
        p = (pred(case, out) if case.split()[0] == 'send_data' else pred_outcome(case, out))
        if p:
            print('property:', vlib.run_batch(ctx.driver, [p])[0])
    return 0
