"""C17 - STARTTLS (server): no clear-text input survives into the TLS session."""
import json, os
import vlib, session, smtpworld
import stlsworld as W
from stlsworld import Case

REQUIRED = ['sync_is_first_step', 'starttls_row', 'ssl_only_by_handshake', 'lookahead_empty_at_success', 'ssl_stays',
            'clear_wire_irrelevant_after_success', 'no_cleartext_survives', 'tls_commands_exact', 'pipelined_suffix_refused', 'wait_for_quit_inert',
            'state_reset', 'mail_requires_new_greeting', 'starttls_when', 'starttls_refused_inside_tls',
            'starttls_refused_without_esmtp', 'offer_iff_certificate', 'failed_handshake_inert', 'no_tls_without_handshake',
            'servercert_variant_is_repaired', 'find_servercert_no_fault', 'find_servercert_spec', 'second_ehlo_overflows']

CORR = {
    'cert': 'model QsmtpModel.StartTlsCert.findServercert vs qsmtpd/starttls.c:find_servercert (through EHLO/STARTTLS of the whole server: announcement, memory faults, certificate presented)',
    'script': 'model QsmtpModel.StartTlsSrv.run vs the whole server (harness/h_qsmtpd.c, scripted client): smtploop + tls_init + sync_pipelining/hasinput/wait_for_quit + data_pending',
    'tls': 'model QsmtpModel.StartTlsSrv.run vs the whole server over a socketpair with a Python TLS peer (H_REALIO=2)',
}

S = lambda b: ('S', b)
WT = ('W',)
V = smtpworld.VOCAB
CR = b'\r\n'
EHLO, HELO, NOOP, RSET, VRFY, QUIT, STLS = (V[k][0] + CR for k in ('ehlo', 'helo', 'noop', 'rset', 'vrfy', 'quit', 'starttls'))
MAIL, BOUNCE, RALICE, RCAROL, DATA, GARB, AUTH = (V[k][0] + CR for k in ('mail', 'mail_bounce', 'rcpt_alice', 'rcpt_carol', 'data', 'garbage', 'auth_nocfg'))
MSG = smtpworld.MSG_OK
NOTTLS = b'GARBAGE-NOT-TLS\r\n'          # sent in place of a ClientHello; OpenSSL reads the 5 byte record header


def segs(b, first=1001):
    """a long run of bytes as segments that coincide with the reads of lib/netio.c when the line buffer
    is empty (1001 bytes each): the model's read oracle and the harness's agree on whole segments only"""
    out = []
    while len(b) > first:
        out.append(S(b[:first])); b = b[first:]
    out.append(S(b))
    return out


def lock(lines):
    out = []
    for ln in lines:
        out += [S(ln), WT]
    return out


HISTORIES = {
    'ehlo': [EHLO],
    'helo': [HELO],
    'ehlo-mail': [EHLO, MAIL],
    'ehlo-mail-rcpt': [EHLO, MAIL, RALICE],
    'ehlo-tx-rset': [EHLO, MAIL, RALICE, RSET],
    'ehlo-msg': [EHLO, MAIL, RALICE, DATA, MSG],
    'helo-ehlo': [HELO, EHLO],
    'ehlo-bounce-rcpt': [EHLO, BOUNCE, RCAROL],
    'ehlo-auth': [EHLO, AUTH],
    'none': [],
    'ehlo-ehlo': [EHLO, EHLO],
    # a refused EHLO must not make the session an ESMTP session (nor may a later RSET restore an EHLO state)
    'helo-badehlo-rset': [HELO, V['ehlo_bad'][0] + CR, RSET],
    'badehlo': [V['ehlo_bad'][0] + CR],
    'helo-badehlo': [HELO, V['ehlo_bad'][0] + CR],
    'ehlo-rset': [EHLO, RSET],
    'ehlo-rset-noop': [EHLO, RSET, NOOP],
}
TLS_CONT = {
    'noop-quit': [NOOP, QUIT],
    'mail-first': [MAIL, EHLO, MAIL, RALICE, DATA, MSG, QUIT],
    'rcpt-data-first': [RALICE, DATA, QUIT],
    'msg': [EHLO, MAIL, RCAROL, RALICE, DATA, MSG, QUIT],
    'helo-msg': [HELO, BOUNCE, RALICE, DATA, MSG, QUIT],
    'again': [STLS, EHLO, STLS, QUIT],
    'nothing': [],
    'vrfy': [VRFY, RSET, QUIT],
    # commands that write their own target state (RSET) or depend on the one recorded before the handshake
    'rset-mail': [RSET, MAIL, RALICE, DATA, QUIT],
    'rset-rset-mail': [RSET, RSET, MAIL, QUIT],
}
SUFFIXES = [NOOP, VRFY, QUIT, MAIL, EHLO + MAIL + RALICE + DATA, b'Q', CR, b'\n', b'\x16\x03\x01\x00\x05hello', GARB, RSET + NOOP]


# ------------------------------------------------------------------------------------------------
# generators

def gen_script(ctx):
    rng, quick = ctx.rng, ctx.quick()
    cases = []

    def add(c, tag):
        c.tag = tag
        cases.append(c); ctx.count('script:' + tag)
    # (a) small scope, exhaustive: history x suffix x placement x what follows
    for hn, hist in HISTORIES.items():
        for suf in SUFFIXES:
            for place in ('same', 'next', 'after-220'):
                for tail in ([QUIT], [NOOP, QUIT], []):
                    if quick and rng.random() < 0.55:
                        continue
                    clear = [WT] + lock(hist)
                    clean = suf.endswith(CR) and b'\n' not in suf[:-2].replace(CR, b'') and suf[:1] != b'\x16'
                    if place == 'same':
                        clear += [S(STLS + suf), WT]
                    elif place == 'next':
                        clear += [S(STLS), S(suf), WT]
                    else:
                        clear += [S(STLS), WT, S(suf), WT]
                    clear += lock(tail)
                    if not tail and rng.random() < 0.5:
                        clear = clear[:-1]                     # the script ends without a pause: EOF is readable
                    # what OpenSSL takes of the bytes that arrive in place of a ClientHello: the 5 byte record
                    # header, and the announced fragment if the header looks like a TLS record
                    eat = 10 if (suf[:1] == b'\x16' and place == 'after-220') else 5
                    add(Case('script', clear=clear, hs=['g%d' % eat, 'g', 'g'], clean=clean and place != 'after-220'), 'matrix:%s' % place)
    # lone STARTTLS, every history, every certificate kind
    for hn, hist in HISTORIES.items():
        for cert in W.CERT_KINDS:
            for port in ('25', '465') if cert in ('u', 'n') else ('25',):
                add(Case('script', cert=cert, port=port, clear=[WT] + lock(hist + [STLS]) + lock([NOTTLS, EHLO, QUIT]), hs=['g'] * 3, clean=False), 'cert:%s' % cert)
    # (b) every cut of STARTTLS + suffix (one cut and two cuts), with and without a pause at the cut
    for suf in (NOOP, QUIT, b'Q', MAIL):
        data = STLS + suf
        for i in range(1, len(data)):
            for pause in (False, True):
                if quick and rng.random() < 0.5:
                    continue
                mid = [S(data[:i])] + ([WT] if pause else []) + [S(data[i:]), WT]
                add(Case('script', clear=[WT] + lock([EHLO]) + mid + lock([NOTTLS, QUIT]), hs=['g'] * 3, clean=False), 'cuts')
    # (c) structured random sessions: vocabulary lines, random pipelining
    vocab = [EHLO, HELO, NOOP, RSET, VRFY, STLS, STLS, STLS, MAIL, BOUNCE, RALICE, RCAROL, DATA, GARB, AUTH, QUIT, NOTTLS]
    for _ in range(900 if quick else 12000):
        n = rng.randrange(2, 12)
        lines = []
        for _ in range(n):
            ln = rng.choice(vocab)
            lines.append(ln)
            if ln == DATA and rng.random() < 0.8:
                lines.append(MSG)
        clear = [WT] if rng.random() < 0.93 else []
        for ln in lines:
            r = rng.random()
            if r < 0.12 and len(ln) > 2:                      # split inside the line
                k = rng.randrange(1, len(ln))
                clear += [S(ln[:k])] + ([WT] if rng.random() < 0.3 else []) + [S(ln[k:])]
            else:
                clear.append(S(ln))
            if rng.random() < 0.7:
                clear.append(WT)
        if rng.random() < 0.8:
            clear.append(WT)
        # merge neighbouring segments now and then
        merged = []
        for it in clear:
            if merged and it[0] == 'S' and merged[-1][0] == 'S' and rng.random() < 0.5:
                merged[-1] = S(merged[-1][1] + it[1])
            else:
                merged.append(it)
        add(Case('script', clear=merged, hs=['g'] * 8, clean=False), 'random-vocab')
    # (d) malformed: stray CR/LF, NUL, 8 bit, long lines around the reader and command limits
    junk = [b'\n', b'\r', b'\x00', b'\xff', b'QUIT\x00\n', b'QUIT\x00x\r\n', b'quit\r\n', b'STARTTLS \r\n', b'STARTTLS\n', b'starttls\r\n',
            b'STARTTLSX\r\n', b'STARTTLS\x00\r\n', b'NOOP' + b' ' * 507 + CR, b'x' * 999 + CR, b'x' * 1000 + CR, b'x' * 1001 + CR, b'x' * 1003 + b'\n',
            b'x' * 2100 + CR, b'NOOP' + b' ' * 506 + CR, b'VRFY ' + b'a' * 505 + CR, b'VRFY ' + b'a' * 506 + CR]
    for _ in range(500 if quick else 8000):
        lines = [EHLO] if rng.random() < 0.8 else [HELO]
        for _ in range(rng.randrange(1, 6)):
            lines.append(rng.choice(junk) if rng.random() < 0.55 else rng.choice([STLS, NOOP, QUIT, VRFY, STLS + NOOP]))
        clear = [WT]
        prev = CR
        for ln in lines:
            if len(ln) > 500:
                # long runs only where the line buffer is empty: behind a complete line and a pause
                # (and not where a handshake would take the first bytes of the run away)
                if not prev.endswith(b'\n') or b'\n' in prev[:-1].replace(CR, b'') or b'starttls' in prev.lower():
                    continue
                if clear[-1] != WT:
                    clear.append(WT)
                clear += segs(ln)
            else:
                clear.append(S(ln))
            prev = ln
            if rng.random() < 0.6:
                clear.append(WT)
        if rng.random() < 0.7:
            clear.append(WT)
        add(Case('script', clear=clear, hs=['g'] * 8, clean=False), 'malformed')
    # wait_for_quit() compares whatever is in the line buffer: a NUL ends the C string, a failed read leaves stale data
    for q in (b'QUIT\x00\n', b'QUIT\x00x\r\n', b'quit\r\n', b'QUIT \r\n', b'QUITX\r\n', b'\n', b'x\nQUIT\r\n'):
        for pre in ([S(NOOP + VRFY), WT], [S(STLS + VRFY), WT], [S(NOOP), S(VRFY), WT]):
            add(Case('script', clear=[WT] + lock([EHLO]) + pre + [S(q), WT] + lock([VRFY, QUIT]), hs=['g'] * 2, clean=False), 'wait-for-quit')
    # (e) behind the thresholds: STARTTLS right behind a discarded over-long line / at the buffer end
    for fill in (990, 991, 992, 997, 998, 999, 1000, 1001, 1002, 1003, 2001, 2002, 2003):
        for sep in (b'', CR, b'\n'):
            for suf in (b'', NOOP):
                if quick and rng.random() < 0.4:
                    continue
                add(Case('script', clear=[WT] + lock([EHLO]) + segs(b'y' * fill + sep + STLS + suf) + [WT] + lock([NOTTLS, QUIT]), hs=['g'] * 3, clean=False), 'threshold')
    return cases


def gen_tls(ctx):
    rng, quick = ctx.rng, ctx.quick()
    cases = []

    def add(c, tag):
        c.tag = tag
        cases.append(c); ctx.count('tls:' + tag)
    # history x handshake outcome x what is said inside TLS
    for hn, hist in HISTORIES.items():
        for cn, cont in TLS_CONT.items():
            if quick and rng.random() < 0.3:
                continue
            add(Case('tls', clear=[WT] + lock(hist + [STLS]), hs=['o'], tls=lock(cont)), 'handshake-ok')
    # the CVE-2011-0411 pattern: clear text behind STARTTLS, then a client that goes on with the handshake
    for hn in ('ehlo', 'ehlo-mail-rcpt', 'ehlo-tx-rset', 'helo-ehlo'):
        for suf in SUFFIXES:
            if suf.endswith(DATA):
                suf = suf[:-len(DATA)]       # a client that waits for the reply to its message would meet the server's time-out
            for place in ('same', 'next'):
                if quick and rng.random() < 0.25:
                    continue
                mid = [S(STLS + suf), WT] if place == 'same' else [S(STLS), S(suf), WT]
                clean = suf.endswith(CR) and suf[:1] != b'\x16'
                add(Case('tls', clear=[WT] + lock(HISTORIES[hn]) + mid + lock([QUIT]), hs=['o'], tls=lock([NOOP, EHLO, MAIL, QUIT]), clean=clean), 'pipelined:%s' % place)
                # the same session without the clear-text suffix (see twins())
                cases[-1].twin = Case('tls', clear=[WT] + lock(HISTORIES[hn] + [STLS]), hs=['o'], tls=lock([NOOP, EHLO, MAIL, QUIT]))
                cases[-1].twin.tag = 'twin'
    # failed handshakes: garbage, close, silence; then clear text again
    for hn in ('ehlo', 'ehlo-tx-rset', 'ehlo-msg'):
        for h in ('g', 'c', 't', 'a'):
            for after in ([NOOP, MAIL, QUIT], [STLS], [EHLO, STLS]):
                if (quick and h != 'a' and rng.random() < 0.5) or (h == 't' and rng.random() < 0.6):
                    continue
                clear = [WT] + lock(HISTORIES[hn] + [STLS])
                hs = [h]
                if h == 'g':
                    clear += lock([NOTTLS] + after)
                    if STLS in after:
                        hs.append('o')
                if h == 'a':
                    # a handshake that was begun for real and given up with a close_notify alert (seeded change c17-m8:
                    # the alert was reported as end-of-file, which the accept wrapper took for success)
                    clear += [WT] + lock(after)
                    if STLS in after:
                        hs.append('o')
                add(Case('tls', clear=clear, hs=hs, tls=lock([EHLO, MAIL, QUIT]), clean=False), 'handshake-%s' % h)
    # certificate kinds and port 465
    for cert in W.CERT_KINDS:
        for port in ('25', '465') if cert in ('u', 'n') else ('25',):
            add(Case('tls', cert=cert, port=port, clear=[WT] + lock([EHLO, STLS, EHLO, QUIT]), hs=['o'], tls=lock([EHLO, STLS, QUIT])), 'cert:%s' % cert)
    # the HELO name given before the handshake must not reach the Received: line of a message sent inside TLS
    for g1 in (b'EHLO pre.tls.example\r\n',):
        # (client.example is what the reverse lookup of the client address gives: helovalid() then keeps no HELO
        # name at all - seeded change c17-m10 kept the old one on that path)
        for g2 in (b'EHLO in.tls.example\r\n', b'HELO in.tls.example\r\n', b'EHLO client.example\r\n', b'HELO client.example\r\n'):
            add(Case('tls', clear=[WT] + lock([g1, STLS]), hs=['o'], tls=lock([g2, MAIL, RALICE, DATA, MSG, QUIT])), 'helo-name')
    # records: several lines in one record, a line across records, pipelining inside TLS
    for tls in ([S(EHLO + MAIL + RALICE), WT, S(QUIT), WT], [S(b'EH'), S(b'LO client.example\r'), S(b'\n'), WT, S(NOOP + QUIT), WT],
                [S(NOOP), S(VRFY), WT, S(QUIT), WT], [S(EHLO), WT, S(MAIL), WT, S(RALICE), WT, S(DATA + MSG), WT, S(QUIT), WT]):
        add(Case('tls', clear=[WT] + lock([EHLO, STLS]), hs=['o'], tls=tls, clean=False), 'records')
    # a record longer than one read of the line reader: SSL_pending() > 0 with an empty look-ahead buffer
    big = b'VRFY ' + b'a' * 988 + CR           # 995 bytes, answered "line too long"
    for tail in (NOOP + VRFY, NOOP + b'x' * 3 + CR, NOOP):
        add(Case('tls', clear=[WT] + lock([EHLO, STLS]), hs=['o'], tls=[S(EHLO), WT, S(big + tail), WT, S(QUIT), WT], clean=False), 'records-long')
    if not quick:
        for _ in range(300):
            hist = rng.choice(list(HISTORIES.values()))
            cont = [rng.choice([EHLO, HELO, NOOP, RSET, VRFY, STLS, MAIL, RALICE, DATA, QUIT]) for _ in range(rng.randrange(0, 8))]
            cont2 = []
            for ln in cont:
                cont2.append(ln)
                if ln == DATA:
                    cont2.append(MSG)
            add(Case('tls', clear=[WT] + lock(hist + [STLS]), hs=['o'], tls=lock(cont2), clean=DATA not in cont), 'random')
    return cases


LONG6 = '2001:db8:85a3:8d3:1319:8a2e:370:7348'
FULL6 = '2001:0db8:0000:0000:0000:0000:0000:0001'


def gen_cert(ctx):
    """which certificate file: addresses (IPv4-mapped, short and long IPv6 text), ports, subsets of the three
    names, key files, decoys; one to four EHLOs before STARTTLS (the buffers keep what a call leaves)"""
    rng, quick = ctx.rng, ctx.quick()
    cases = []

    def add(c, tag):
        c.tag = tag
        cases.append(c); ctx.count('cert:' + tag)
    for ip in ('::ffff:192.0.2.1', '2001:db8::1', LONG6, FULL6):
        for port in ('25', '10025', None, '465'):
            c0 = Case('script', cert='files', port=port, localip=ip, files={})
            names = W.cert_names(c0)
            subsets = [[], [names[-1]], [names[0]], names[:], [names[-2]], [names[-2], names[-1]]]
            for sub in subsets:
                for nehlo in (1, 2, 3):
                    if quick and rng.random() < 0.45:
                        continue
                    files = {n: 'cert+key' for n in sub}
                    r = rng.random()
                    if sub and r < 0.25:
                        # separate key file for the name that will be chosen
                        key = 'serverkey.pem' + sub[0][len('servercert.pem'):]
                        files[sub[0]] = 'cert'
                        files[key] = 'key' if rng.random() < 0.6 else 'wrongkey'
                    elif sub and r < 0.4:
                        # a key file for a name that is not the chosen one, and decoys the stale suffix would hit
                        files['serverkey.pem'] = 'wrongkey' if sub[0] != 'servercert.pem' else 'key'
                        if sub[0] == 'servercert.pem':
                            files['servercert.pem'] = 'cert'
                    if rng.random() < 0.3:
                        lip = W.local_ip_text(c0)
                        files['servercert.pem.%s.%s' % (lip, lip)] = 'cert+key'
                    if rng.random() < 0.5:
                        add(Case('script', cert='files', port=port, localip=ip, files=files,
                                 clear=[WT] + lock([EHLO] * nehlo + [STLS]) + lock([NOTTLS, QUIT]), hs=['g'] * 2, clean=False), 'script')
                    else:
                        add(Case('tls', cert='files', port=port, localip=ip, files=files,
                                 clear=[WT] + lock([EHLO] * nehlo + [STLS]) + lock([QUIT]), hs=['o'], tls=lock([NOOP, QUIT])), 'tls')
    return cases


def compare_cert(case, offers, fault, peer_cn, handshake_ok, mout):
    """the find_servercert() model against what the session showed"""
    toks = mout.split()
    mfault = 'FAULT' in toks
    if mfault != bool(fault):
        return 'find_servercert: memory fault impl=%s model=%s' % (bool(fault), mfault)
    if mfault:
        return None
    founds = [t.split(':')[0] == '1' for t in toks]
    if case.port != '465' and founds != offers[:len(founds)]:
        return 'find_servercert: announced impl=%s model=%s' % (offers, founds)
    if handshake_ok and toks:
        name = bytes.fromhex(toks[-1].split(':')[1]).decode('latin1')[len('control/'):]
        want = W.cert_kind_of(case, name)
        want = {'general': 'mx.local.example'}.get(want, want)
        if peer_cn != want:
            return 'find_servercert: certificate presented impl=%s model=%s (%s)' % (peer_cn, want, name)
    return None


# ------------------------------------------------------------------------------------------------
# comparison

STATE_KEYS = ['comstate', 'goodrcpt', 'rcptcount', 'relayclient', 'esmtp', 'authname', 'mailfrom', 'ssl']


def state_of_t(t):
    return dict(zip(STATE_KEYS, [t[0], t[1], t[2], t[3], t[4], t[5], t[6], t[7]]))


def flat_model(evs):
    out = []
    for e in evs:
        for i, c in enumerate(e['codes']):
            out.append((e['chan'], c, e['offer'] == '1' and c == '250'))
    return out


def compare_script(case, o, evs):
    if evs is None:
        return 'model gave no answer'
    if o['fault']:
        return 'fault: ' + o['fault'][:200]
    mi = flat_model(evs)
    ii = [('c', g['code'], g['offer']) for g in o['groups']]
    if mi != ii:
        k = next((j for j in range(min(len(mi), len(ii))) if mi[j] != ii[j]), min(len(mi), len(ii)))
        return 'reply %d: impl=%s model=%s' % (k, ii[k:k + 3], mi[k:k + 3])
    me = W.model_exit(evs)
    if me != o['exit']:
        return 'exit: impl=%s model=%s' % (o['exit'], me)
    mh = [e['handoff'] for e in evs if e['handoff'] != '-']
    ih = [h for h in o['handoffs'] if h]           # an empty envelope: qmail-queue was started, the transaction never completed
    if mh != ih:
        return 'hand-offs: impl=%s model=%s' % (ih, mh)
    # byte offsets of the script at which the client pauses (or stops): the server can only block there with nothing pending
    pauses, pos = set(), 0
    for k, it in enumerate(case.clear):
        if it[0] == 'S':
            pos += len(it[1])
            if k + 1 >= len(case.clear) or case.clear[k + 1][0] == 'W':
                pauses.add(pos)
    j = -1
    for e in evs:
        if not e['codes']:
            continue
        j += len(e['codes'])
        g = o['groups'][j]
        if g['states'] and e['st']['closed'] == '0' and e['st']['dead'] == '-':
            got = state_of_t(g['states'][0])
            for k in STATE_KEYS:
                if got[k] != e['st'][k]:
                    return 'state %s after reply %d: impl=%s model=%s' % (k, j, got[k], e['st'][k])
            if int(e['st']['cc']) in pauses and e['st']['innlen'] == '0' and str(g['consumed']) != e['st']['cc']:
                return 'bytes consumed when blocking after reply %d: impl=%s model=%s' % (j, g['consumed'], e['st']['cc'])
    return None


def compare_tls(case, r, evs):
    if evs is None:
        return 'model gave no answer'
    if r['clienterr']:
        return r['clienterr']
    if r['fault']:
        return 'fault: ' + r['fault'][:200]
    mi = flat_model(evs)
    ii = [(c, code, bool(off)) for c, code, off in r['replies']]
    if mi != ii:
        k = next((j for j in range(min(len(mi), len(ii))) if mi[j] != ii[j]), min(len(mi), len(ii)))
        return 'reply %d: impl=%s model=%s' % (k, ii[k:k + 3], mi[k:k + 3])
    me = W.model_exit(evs)
    if me != r['exit']:
        return 'exit: impl=%s model=%s' % (r['exit'], me)
    mh = [e['handoff'] for e in evs if e['handoff'] != '-']
    ih = [h for h in r['handoffs'] if h]
    if mh != ih:
        return 'hand-offs: impl=%s model=%s' % (ih, mh)
    if case.tag == 'helo-name':
        named = any(it[0] == 'S' and b'in.tls.example' in it[1] for it in case.tls)
        if len(r['msgs']) != 1 or b'pre.tls.example' in r['msgs'][0] or (named and b'in.tls.example' not in r['msgs'][0]):
            return 'HELO name of the clear-text phase in the message queued inside TLS: %r' % (r['msgs'][:1],)
    # the state when the server last blocked = the model's state before the event that ended the session
    if r['states'] and len(evs) >= 2:
        got = state_of_t(r['states'][-1])
        st = evs[-2]['st']
        for k in STATE_KEYS:
            if got[k] != st[k]:
                return 'state %s when the server last blocked: impl=%s model=%s' % (k, got[k], st[k])
    return None


def nehlo(case):
    """EHLO lines given in clear text (each one calls find_servercert() unless the port is 465)"""
    return sum(1 for it in case.clear if it[0] == 'S' and it[1].upper().startswith(b'EHLO '))


def cert_model(ctx, cases):
    idx = [i for i, c in enumerate(cases) if c.cert == 'files']
    out = [None] * len(cases)
    if idx and ctx.driver:
        res = vlib.run_batch(ctx.driver, [W.servercert_line(cases[i], 0 if cases[i].port == '465' else nehlo(cases[i])) for i in idx])
        for i, r in zip(idx, res):
            out[i] = r
    return out


def run_cases(ctx, binary, pki, cases):
    """-> list of (case string, observation string, disagreement or None, predicate answer)"""
    scr = [c for c in cases if c.mode == 'script']
    tls = [c for c in cases if c.mode == 'tls']
    out = []
    if scr:
        res = session.run_sessions(ctx, binary, [W.scenario_for(pki, c) for c in scr])
        mo = vlib.run_batch(ctx.driver, [W.model_line(c) for c in scr]) if ctx.driver else [''] * len(scr)
        obs = [W.observe_script(c, r) for c, r in zip(scr, res)]
        po = vlib.run_batch(ctx.driver, ['chk_stls ' + ' '.join(o['obs']) for o in obs]) if ctx.driver else ['holds'] * len(scr)
        cm = cert_model(ctx, scr)
        for c, o, m, p, cmo in zip(scr, obs, mo, po, cm):
            d = compare_script(c, o, W.parse_model(m))
            if d is None and cmo is not None:
                offers = [g['offer'] for g in o['groups'][1:] if g['code'] == '250'][:nehlo(c)]
                d = compare_cert(c, offers, o['fault'], None, False, cmo)
            out.append((c, 'replies=%s exit=%s%s' % ([g['code'] for g in o['groups']], o['exit'], ' FAULT' if o['fault'] else ''), d, p))
    if tls:
        res = W.run_tls_sessions(ctx, binary, pki, tls)
        mo = vlib.run_batch(ctx.driver, [W.model_line(c) for c in tls]) if ctx.driver else [''] * len(tls)
        po = vlib.run_batch(ctx.driver, ['chk_stls ' + ' '.join(r['obs']) for r in res]) if ctx.driver else ['holds'] * len(tls)
        cm = cert_model(ctx, tls)
        for c, r, m, p, cmo in zip(tls, res, mo, po, cm):
            d = compare_tls(c, r, W.parse_model(m))
            if d is None and cmo is not None:
                offers = [bool(off) for ch, code, off in r['replies'][1:] if ch == 'c' and code == '250'][:nehlo(c)]
                d = compare_cert(c, offers, r['fault'], r['peer_cn'], any(ch == 't' for ch, _, _ in r['replies']), cmo)
            out.append((c, 'replies=%s exit=%s cn=%s%s' % (r['replies'], r['exit'], r['peer_cn'], ' FAULT' if r['fault'] else ''), d, p))
    return out


def job(ctx, name, binary, pki, cases):
    import time
    t = time.time()
    res = run_cases(ctx, binary, pki, cases)
    dis, fails = [], []
    nontrivial = set()
    for c, o, d, p in res:
        cs = c.dumps()
        if d and d.startswith('HELO name of the clear-text phase'):
            # an oracle on the implementation alone: what was learned before the handshake is in the queued message
            fails.append((cs, d[:400], 'fails state_reset: the HELO name given before the handshake reached the message queued inside TLS'))
        elif d:
            dis.append((cs, o, d))
        if not p.startswith('holds'):
            fails.append((cs, o, p))
        if o.count("'220'") >= 2 or "'503'" in o or "'454'" in o:
            nontrivial.add(cs)       # STARTTLS got as far as tls_init() or the pending-input check fired
    ctx.cov['evaluations'] += len(cases)
    ctx.cov['traces_validated_against_impl'] += len(cases)
    ctx.cov['distinct_nontrivial'] += len(nontrivial)
    if res and len(ctx.cov['samples']) < 6:
        c, o, d, p = res[ctx.rng.randrange(len(res))]
        ctx.cov['samples'].append({'job': name, 'case': c.dumps()[:400], 'impl': o[:300], 'predicate': p})
    ctx.count('job:%s' % name, len(cases))
    ctx.count('time:%s' % name, round(time.time() - t, 1))
    vlib.handle_results(ctx, name, CORR[name.split(':')[0]], dis, fails)
    return res


def twins(ctx, binary, pki, cases, res):
    """The property as a relation between two runs of the implementation (no model): whenever the
    server completes the handshake although clear text followed the STARTTLS line, everything that
    happens inside TLS (replies, hand-offs) must be what happens in the session in which that clear
    text was never sent - otherwise some of it was executed."""
    pend = []
    for (c, o, d, p), case in zip(res, cases):
        tw = getattr(c, 'twin', None)
        if tw is not None and "('t'," in o:
            pend.append((c, o, tw))
    ctx.count('twin-runs', len(pend))
    if not pend:
        return
    rs = W.run_tls_sessions(ctx, binary, pki, [tw for _, _, tw in pend])
    got = W.run_tls_sessions(ctx, binary, pki, [c for c, _, _ in pend])
    fails = []
    for (c, o, tw), r0, r1 in zip(pend, rs, got):
        a = [(ch, code) for ch, code, _ in r0['replies'] if ch == 't']
        b = [(ch, code) for ch, code, _ in r1['replies'] if ch == 't']
        if r0['clienterr'] or r1['clienterr'] or not a:
            continue
        if a != b or [h for h in r0['handoffs'] if h] != [h for h in r1['handoffs'] if h]:
            fails.append((c.dumps(), 'inside TLS: %s; without the clear-text suffix: %s' % (b, a),
                          'fails no_cleartext_survives:tls-session-differs-from-the-session-without-the-clear-text-suffix'))
    vlib.handle_results(ctx, 'tls:twins', 'two runs of the real server', [], fails)


def corpus_cases():
    out = []
    cdir = os.path.join(vlib.VERIF, 'corpus', 'C17')
    if os.path.isdir(cdir):
        for f in sorted(os.listdir(cdir)):
            for line in open(os.path.join(cdir, f)):
                line = line.strip()
                if line and not line.startswith('#'):
                    out.append(Case.loads(line))
    return out


def run(ctx):
    vlib.lean_prepare(ctx, REQUIRED)
    binary = session.build_qsmtpd(ctx)
    if binary:
        pki = W.make_pki(ctx)
        corp = corpus_cases()
        ctx.count('corpus', len(corp))
        job(ctx, 'script:corpus', binary, pki, [c for c in corp if c.mode == 'script'])
        job(ctx, 'tls:corpus', binary, pki, [c for c in corp if c.mode == 'tls'])
        job(ctx, 'script', binary, pki, gen_script(ctx))
        tc = gen_tls(ctx)
        twins(ctx, binary, pki, tc, job(ctx, 'tls', binary, pki, tc))
        job(ctx, 'cert', binary, pki, gen_cert(ctx))
    if not ctx.quick():
        vlib.leanchecker(ctx, ['QsmtpModel.Props.C17', 'QsmtpModel.Lemmas.StartTlsSrv', 'QsmtpModel.Lemmas.StartTlsSrvTls', 'QsmtpModel.Lemmas.StartTlsCert'])
    return vlib.finish(ctx, assumptions=[
        'OpenSSL: SSL_accept() either completes a handshake with the peer or fails; what it reads from the socket meanwhile is handshake data (oracle HsV with the number of clear-text bytes taken)',
        'after a completed handshake SSL_read() returns only plaintext the peer sent inside the TLS session (the second wire of the model)',
        'the kernel: poll(0) reports input iff bytes (or EOF) have arrived; read() returns them in order',
        'command bodies other than STARTTLS/NOOP/DATA/QUIT are the verdict-driven functions of QsmtpModel.Session (tied by their own checks)',
        'AUTH given before STARTTLS survives the upgrade (authname is not cleared by tls_init): observed, not part of the property',
    ])


def replay(ctx, path):
    d = json.load(open(path))
    case = d.get('case') or (d.get('correspondence_breaks') or [{}])[0].get('case')
    binary = session.build_qsmtpd(ctx)
    if not case or not binary:
        print('nothing to replay'); return 2
    vlib.lean_prepare(ctx, [])
    pki = W.make_pki(ctx)
    c = Case.loads(case)
    for cc, o, dis, p in run_cases(ctx, binary, pki, [c]):
        print('case    :', case[:600])
        print('impl    :', o[:600])
        print('model   :', 'agrees' if dis is None else dis)
        print('property:', p)
    return 0
