"""C20 — Qremote target choice: routes first, then MX order, never itself."""
import itertools, json, os, socket
import vlib
from vlib import hexs

REQUIRED = ['route_first_match', 'route_perm_invariant', 'route_file_order', 'sortmx_sorted_perm', 'tryconn_once_in_order',
            'local_never_on_25', 'temp_only_after_all', 'target_choice']

ZERO = '00' * 16


def v4(e, k):
    return '00' * 10 + 'ffff' + bytes([10, 0, e & 255, k & 255]).hex()


def v6(e, k):
    return '20010db8' + '00' * 8 + bytes([0, e & 255, 0, k & 255]).hex()


def entry(prio, addrs, name=None):
    return '%d:%s:%s' % (prio, '+'.join(addrs) if addrs else '-', '~' if name is None else hexs(name))


def mxlist(entries):
    return ';'.join(entries) if entries else '-'


FAMS = ['4', '6', '46', '64', '44', '66', '464', '6446']


def addrs_for(e, pat):
    return [v4(e, k) if c == '4' else v6(e, k) for k, c in enumerate(pat)]


# ------------------------------------------------------------------------------------------------
# sortmx / filter / tryconn / connect_mx

def gen_sortmx(ctx):
    rng, cases = ctx.rng, []
    pats = ['4', '6', '46', '64', '44', '66']
    prios = [5, 10]
    small = []
    for n in (1, 2, 3, 4):
        for combo in itertools.product(itertools.product(prios, pats), repeat=n):
            small.append(mxlist([entry(p, addrs_for(i + 1, f)) for i, (p, f) in enumerate(combo)]))
    if ctx.quick():
        keep = [s for s in small if s.count(';') <= 2] + rng.sample([s for s in small if s.count(';') == 3], 3000)
    else:
        keep = small
    for s in keep:
        cases.append('sortmx l=' + s); ctx.count('sortmx:exhaustive<=4')
    for _ in range(1500 if ctx.quick() else 20000):
        n = rng.choice([2, 3, 5, 6, 8, 12])
        ents = []
        for i in range(n):
            p = rng.choice([0, 1, 5, 5, 10, 10, 10, 20, 65535, 65536])
            f = rng.choice(FAMS)
            ents.append(entry(p, addrs_for(i + 1, f), rng.choice([None, b'mx%d.example.net' % i])))
        cases.append('sortmx l=' + mxlist(ents)); ctx.count('sortmx:random')
    return cases


def pred_sortmx(case, impl):
    if impl.startswith('SKIP'):
        return None
    return 'chk_sortmx ' + case.split(' ', 1)[1] + ' | ' + impl


def gen_filter(ctx):
    rng, cases = ctx.rng, []
    special4 = ['00' * 10 + 'ffff7f000001', '00' * 10 + 'ffff7f010203', '00' * 10 + 'ffff00000000', '00' * 10 + 'ffffc0a80001']
    special6 = ['00' * 15 + '01', 'fe80' + '00' * 13 + '01']
    for _ in range(4000 if ctx.quick() else 40000):
        n = rng.choice([1, 1, 2, 3, 4])
        ents, pool = [], []
        for i in range(n):
            f = rng.choice(FAMS)
            a = addrs_for(i + 1, f)
            for k in range(len(a)):
                if rng.random() < 0.25:
                    a[k] = rng.choice(special4 + special6)
            if rng.random() < 0.15 and pool:
                a[rng.randrange(len(a))] = rng.choice(pool)      # the same address under two MX names
            pool += a
            ents.append(entry(rng.choice([5, 10]), a, rng.choice([None, b'mx.example.net'])))
        r = rng.random()
        if r < 0.05:
            ifs = 'F'
        else:
            items = []
            for _ in range(rng.choice([0, 1, 1, 2, 3, 5])):
                q = rng.random()
                if q < 0.45:
                    a = rng.choice(pool + special4 + special6)
                    items.append('4' + a[24:] if a.startswith('00' * 10 + 'ffff') and rng.random() < 0.8 else '6' + a)
                elif q < 0.6:
                    items.append('4' + rng.choice(['7f000001', 'c0a80001', '0a000101', '00000000']))
                elif q < 0.75:
                    items.append('6' + rng.choice(special6 + [v6(1, 0), v6(2, 1)]))
                elif q < 0.9:
                    items.append('o')
                else:
                    items.append('n')
            ifs = ','.join(items) if items else '-'
        cases.append('filter l=%s if=%s' % (mxlist(ents), ifs)); ctx.count('filter:' + ('F' if ifs == 'F' else 'ifs%d' % (0 if ifs == '-' else ifs.count(',') + 1)))
    return cases


def pred_filter(case, impl):
    if impl.startswith('SKIP'):
        return None
    return 'chk_filter ' + case.split(' ', 1)[1] + ' | ' + impl


def rand_list(rng, marks=False, names=True):
    n = rng.choice([1, 1, 2, 2, 3, 4])
    ents = []
    for i in range(n):
        f = rng.choice(FAMS)
        p = rng.choice([5, 10, 10, 65536])
        if marks and rng.random() < 0.3:
            p = rng.choice([65537, 65538, 65538, 70000])
        ents.append(entry(p, addrs_for(i + 1, f), rng.choice([None, b'mx%d.example.net' % i]) if names else None))
    return ents


def gen_tryconn(ctx):
    rng, cases = ctx.rng, []
    for _ in range(8000 if ctx.quick() else 80000):
        marks = rng.random() < 0.3
        ents = rand_list(rng, marks)
        total = sum(e.split(':')[1].count('+') + 1 for e in ents)
        script = ','.join(rng.choice('kcccsb' if rng.random() < 0.7 else 'kkc') for _ in range(rng.randrange(0, total + 3))) or '-'
        cases.append('tryconn l=%s cs=%s curs=%d calls=%d port=%d o4=%s o6=%s' % (
            mxlist(ents), script, rng.choice([0, 0, 1, 2, 5]) if marks else rng.choice([0, 0, 3]), rng.choice([1, 2, 3, 12]),
            rng.choice([25, 587]), v4(200, 1), v6(200, 1)))
        ctx.count('tryconn:' + ('marked-state' if marks else 'fresh'))
    return cases


def session_tokens(rng, head_named, nconn):
    """flat script for up to nconn successful connects: mostly protocol conforming"""
    toks = []
    for i in range(nconn + 1):
        if head_named:
            toks.append('d%d' % rng.choice([0, 0, 0, 1, -1]))
        if i == nconn:
            break
        r = rng.random()
        if r < 0.12:
            toks.append(rng.choice(['nR', 'nI', 'nT', 'nP'])); continue
        code = rng.choice([220, 220, 220, 220, 421, 554, 250])
        lines = rng.choice([0, 0, 1, 2])
        bad = False
        toks.append('n%d%s' % (code, 'm' if lines else 's'))
        for j in range(lines):
            q = rng.random()
            if q < 0.1:
                toks.append(rng.choice(['nR', 'nI', 'nT', 'nP'])); bad = True; break
            c2 = code if q < 0.85 else 250
            bad = bad or c2 != code
            toks.append('n%d%s' % (c2, 'm' if j + 1 < lines else 's'))
        if bad or code != 220:
            continue
        g = rng.choice([0, 8, 8, 12, 4, 13, -104, -32, -110, -22, -5])
        toks.append('g%d' % g)
        if g < 0:
            continue
        if g & 4:
            t = rng.choice([0, 0, 0, 1, 104, 110, 22, -1])
            toks.append('t%d' % t)
            if t != 0:
                continue
            g2 = rng.choice([8, 8, 0, -104, -22])
            toks.append('g%d' % g2)
            if g2 < 0:
                continue
        break
    if rng.random() < 0.08 and toks:
        toks.pop(rng.randrange(len(toks)))          # malformed script: both sides must report the same desync
    return ','.join(toks) if toks else '-'


def gen_connmx(ctx):
    rng, cases = ctx.rng, []
    for _ in range(10000 if ctx.quick() else 100000):
        ents = rand_list(rng)
        total = sum(e.split(':')[1].count('+') + 1 for e in ents)
        cs = [rng.choice('kkc' if rng.random() < 0.6 else 'kcccc') for _ in range(rng.randrange(0, total + 2))]
        ss = session_tokens(rng, not ents[0].endswith('~'), cs.count('k'))
        cases.append('connmx l=%s cs=%s ss=%s port=%d etls=%d o4=%s o6=%s' % (
            mxlist(ents), ','.join(cs) or '-', ss, rng.choice([25, 25, 587]), rng.choice([0, 0, 0, 1]), v4(200, 1), v6(200, 1)))
        ctx.count('connmx')
    return cases


# ------------------------------------------------------------------------------------------------
# routes

HOSTS = {b'mail.example.net': [v6(50, 1)], b'relay4.example.net': [v4(51, 1)], b'both.example.net': [v4(52, 1), v6(52, 2)],
         b'multi.example.net': [v6(53, 1), v6(53, 2), v4(53, 3)], b'1.2.3.4': ['00' * 10 + 'ffff01020304'], b'::1': ['00' * 15 + '01'],
         b'2001:db8::7': ['20010db8' + '00' * 11 + '07'], b'temp.example.net': 'e2', b'perm.example.net': 'e3', b'local.example.net': 'e1',
         b'none.example.net': '0', b'MAIL.example.net': [v6(54, 1)]}
PORTS = [b'25', b'26', b'587', b'0', b'65535', b'65536', b'100000', b'abc', b'', b'+25', b'-1', b'4294967321', b'25x', b'\r26', b'00025',
         b'18446744073709551641', b'99999999999999999999999', b'-4294967271']
CERTS = [b'/etc/cert.pem', b'/etc/key.pem', b'/nonexistent.pem', b'control/x.pem']
OIP4 = [b'10.9.8.7', b'127.0.0.1', b'1.2.3', b'256.1.1.1', b'::1', b'']
OIP6 = [b'::1', b'2001:db8::99', b'::ffff:1.2.3.4', b'1.2.3.4', b'zz', b'']
REMHOSTS = [b'foo.example.net', b'a.b.example.com', b'example.org', b'x', b'Foo.Example.NET', b'a.', b'.a', b'a..b', b'sub.foo.example.net',
            b'foo.example.net.', b'xn--bcher-kva.example', b'*.example.net', b'default']


def pton(af, s):
    try:
        if b'\0' in s:
            return 'x'
        return socket.inet_pton(af, s.decode('latin1')).hex()
    except (OSError, ValueError, UnicodeError):
        return 'x'


def strip_line(l):
    out = bytearray()
    for i, c in enumerate(l):
        if c == 0x23 and (i == 0 or l[i - 1] != 0x5c):
            break
        out.append(c)
    return bytes(out).rstrip(b' \t')


def pton_tables(texts, extra=()):
    cands = set(extra)
    for t in texts:
        for raw in t.replace(b'\0', b'\n').split(b'\n'):
            l = strip_line(raw)
            for piece in (l, raw):
                if b'=' in piece:
                    cands.add(piece.split(b'=', 1)[1])
                parts = piece.split(b':')
                if len(parts) >= 2:
                    cands.add(parts[1])
    cands = [c for c in cands if c is not None and len(c) < 200]
    p4 = ','.join('%s=%s' % (hexs(c), pton(socket.AF_INET, c)) for c in sorted(cands)) or '-'
    p6 = ','.join('%s=%s' % (hexs(c), pton(socket.AF_INET6, c)) for c in sorted(cands)) or '-'
    return p4, p6


def dns_arg(names):
    items = []
    for n in names:
        v = HOSTS.get(n)
        if v is None:
            continue
        items.append('%s=%s' % (hexs(n), v if isinstance(v, str) else '+'.join(v)))
    return ','.join(items) or '-'


def route_file(rng, quality):
    """content of a smtproutes.d file; quality: probability of a clean file"""
    lines = []
    if rng.random() < 0.75:
        lines.append(b'relay=' + rng.choice(list(HOSTS)))
    if rng.random() < 0.5:
        lines.append(b'port=' + (rng.choice(PORTS[:3]) if rng.random() < quality else rng.choice(PORTS)))
    if rng.random() < 0.3:
        lines.append(b'clientcert=' + rng.choice(CERTS))
    if rng.random() < 0.25:
        lines.append(b'clientkey=' + rng.choice(CERTS))
    if rng.random() < 0.35:
        lines.append(b'outgoingip=' + (OIP4[0] if rng.random() < quality else rng.choice(OIP4)))
    if rng.random() < 0.35:
        lines.append(b'outgoingip6=' + (rng.choice(OIP6[:2]) if rng.random() < quality else rng.choice(OIP6)))
    rng.shuffle(lines)
    if rng.random() > quality:
        for _ in range(rng.choice([1, 1, 2])):
            junk = rng.choice([b'foo=bar', b'=x', b'noequal', b'relayx=1', b'relay', b'relay=dup.example.net', b'port=26', b'# comment',
                               b'', b'outgoingip6x=::1', b'outgoing=1', b'Relay=mail.example.net', b'relay =x', b'x y', b'relay=a b',
                               b'port=25 ', b'port=25\t# c', b'relay=\\#x', b'outgoingip=', b'clientcert=', b'r'])
            lines.insert(rng.randrange(len(lines) + 1), junk)
    sep = b'\n'
    body = sep.join(lines)
    if lines and rng.random() < 0.8:
        body += b'\n'
    if rng.random() < 0.03:
        body = body.replace(b'\n', b'\0', 1)
    return body


def routes_file(rng, remhost, quality):
    lines = []
    doms = [remhost, remhost.upper(), remhost.lower(), b'', b'other.example.org', b'.example.net', b'.net', b'.' + remhost, remhost[1:],
            b'.' + remhost.split(b'.', 1)[-1], b'example.net', b'.EXAMPLE.net']
    for _ in range(rng.choice([0, 1, 1, 2, 3, 5])):
        d = rng.choice(doms)
        h = rng.choice(list(HOSTS) + [b'', b''])
        r = rng.random()
        if r < 0.5:
            l = d + b':' + h
        else:
            l = d + b':' + h + b':' + (rng.choice(PORTS[:3]) if rng.random() < quality else rng.choice([p for p in PORTS if b'\r' not in p]))
        lines.append(l)
    if rng.random() > quality:
        for _ in range(rng.choice([1, 2])):
            junk = rng.choice([b'nocolon', b'a:b:c:d', b'a:b:2x', b'# c', b'', b'x:y # c', b'x:y z', b' lead:x', b'a:b:', b':', b'::', b'::587',
                               b'zz', b'q', b'foo.example.net', b'.:x'])
            lines.insert(rng.randrange(len(lines) + 1), junk)
    body = b'\n'.join(lines)
    if lines and rng.random() < 0.8:
        body += b'\n'
    return body


def route_case(ctx, op='route', remhost=None, extra='', quality=None, nodir=0.25):
    rng = ctx.rng
    quality = quality if quality is not None else rng.choice([1.0, 0.9, 0.6, 0.3])
    h = remhost or rng.choice(REMHOSTS)
    if remhost is None and rng.random() < 0.04:
        n = rng.choice([200, 250, 253, 254, 255, 256, 257, 258, 300])
        h = (rng.choice([b'', b'a', b'.']) + b'.'.join([b'l' * 50] * 8))[:n]
    texts = []
    r = rng.random()
    if r < nodir:
        d = '~'
    elif r < nodir + 0.05:
        d = '-'
    else:
        labels = h.split(b'.')
        names = [h, b'*.' + b'.'.join(labels[1:]), b'*.' + b'.'.join(labels[2:]), b'*.' + labels[-1], b'default', b'unrelated.example',
                 h.lower(), b'*' + h, b'*.']
        chosen = [n for n in names if rng.random() < 0.3 and n and len(n) < 250 and b'/' not in n and n not in (b'.', b'..')]
        files = {}
        for n in chosen:
            files[n] = route_file(rng, quality)
        texts += list(files.values())
        d = ','.join('%s=%s' % (hexs(n), hexs(c)) for n, c in files.items()) or '-'
        ctx.count('route:dirfiles%d' % len(files))
    r = rng.random()
    if r < 0.3:
        rf = '~'
    else:
        body = routes_file(rng, h, quality)
        texts.append(body)
        rf = hexs(body)
    inner = h[1:-1] if h[:1] == b'[' else None
    p4, p6 = pton_tables(texts, extra=[inner] if inner is not None else [])
    acc = ','.join(hexs(c) for c in CERTS[:2] if rng.random() < 0.8) or '-'
    return '%s h=%s d=%s r=%s ck=%d dns=%s acc=%s p4=%s p6=%s%s' % (op, hexs(h), d, rf, rng.choice([0, 1]), dns_arg(HOSTS), acc, p4, p6, extra)


def gen_route(ctx):
    cases = []
    cases += gen_route_exhaustive(ctx)
    for _ in range(12000 if ctx.quick() else 120000):
        cases.append(route_case(ctx)); ctx.count('route')
    # order of the lines of one settings file: every permutation of a clean file, same answer expected
    base = [b'relay=mail.example.net', b'port=26', b'outgoingip=10.9.8.7', b'outgoingip6=2001:db8::99', b'clientcert=/etc/cert.pem']
    perms = list(itertools.permutations(base))
    if ctx.quick():
        perms = ctx.rng.sample(perms, 40)
    for p in perms:
        body = b'\n'.join(p) + b'\n'
        p4, p6 = pton_tables([body])
        cases.append('route h=%s d=%s=%s r=~ ck=0 dns=%s acc=%s p4=%s p6=%s' % (
            hexs(b'foo.example.net'), hexs(b'foo.example.net'), hexs(body), dns_arg(HOSTS), hexs(CERTS[0]), p4, p6))
        ctx.count('route:permutation')
    return cases


def gen_route_exhaustive(ctx):
    """small scope: (a) every control/smtproutes over a 7 letter alphabet up to length 4 (quick: + sample of 5,
    thorough: up to 6) for the target "a.a"; (b) every sequence of up to 4 distinct lines of a settings file"""
    rng, cases = ctx.rng, []
    alpha = [b'a', b'.', b':', b'#', b' ', b'\n', b'5']
    h = b'a.a'
    dns = '%s=%s,%s=%s' % (hexs(b'a'), v6(60, 1), hexs(b'a.a'), v4(61, 1))
    maxlen = 4 if ctx.quick() else 6
    texts = []
    for n in range(0, maxlen + 1):
        for combo in itertools.product(alpha, repeat=n):
            texts.append(b''.join(combo))
    if ctx.quick():
        texts += [b''.join(rng.choice(alpha) for _ in range(5)) for _ in range(4000)]
        texts += [b''.join(rng.choice(alpha) for _ in range(rng.randrange(6, 12))) for _ in range(2000)]
    for body in texts:
        p4, p6 = pton_tables([body])
        cases.append('route h=%s d=~ r=%s ck=0 dns=%s acc=- p4=%s p6=%s' % (hexs(h), hexs(body), dns, p4, p6))
        ctx.count('route:exhaustive-smtproutes')
    lines = [b'relay=mail.example.net', b'port=26', b'outgoingip=10.9.8.7', b'outgoingip6=2001:db8::99', b'clientcert=/etc/cert.pem',
             b'port=587', b'foo=bar', b'outgoingip6x=1']
    seqs = []
    for n in range(0, 5):
        seqs += list(itertools.permutations(lines, n))
    if ctx.quick():
        seqs = [s for s in seqs if len(s) <= 3] + rng.sample([s for s in seqs if len(s) == 4], 600)
    for s in seqs:
        body = b''.join(l + b'\n' for l in s)
        p4, p6 = pton_tables([body])
        cases.append('route h=%s d=%s=%s r=~ ck=0 dns=%s acc=%s p4=%s p6=%s' % (
            hexs(b'foo.example.net'), hexs(b'*.example.net'), hexs(body), dns_arg(HOSTS), hexs(CERTS[0]), p4, p6))
        ctx.count('route:exhaustive-settings-lines')
    return cases


def pred_route(case, impl):
    if impl.startswith('SKIP'):
        return None
    return 'chk_route ' + case.split(' ', 1)[1] + ' | ' + impl


def mx_answer(rng):
    r = rng.random()
    if r < 0.08:
        return '~', []
    if r < 0.14:
        return rng.choice(['e1', 'e2', 'e3']), []
    if r < 0.18:
        return '5/' + hexs(b'.'), []
    names = rng.sample([n for n in HOSTS], rng.choice([1, 1, 2, 3, 4]))
    # preferences over the whole 16 bit range: both octets of the wire format matter (low octet >= 0x80, high octet
    # set, 0 and 65535); seeded change c20-m7 decoded them through a signed char
    prefs = [5, 10, 10, 20] if rng.random() < 0.5 else [0, 5, 10, 127, 128, 129, 200, 255, 256, 300, 384, 400, 32767, 32768, 33000, 65280, 65535]
    recs = ['%d/%s' % (rng.choice(prefs), hexs(n)) for n in names]
    return ';'.join(recs), names


def gen_getmx(ctx):
    rng, cases = ctx.rng, []
    lits = [b'[1.2.3.4]', b'[::1]', b'[2001:db8::5]', b'[foo]', b'[1.2.3.4', b'[', b'[]', b'[::ffff:9.9.9.9]', b'[127.0.0.1]']
    for _ in range(5000 if ctx.quick() else 50000):
        mx, _ = mx_answer(rng)
        h = rng.choice(lits) if rng.random() < 0.15 else None
        cases.append(route_case(ctx, 'getmx', h, ' mx=' + mx)); ctx.count('getmx:' + ('literal' if h else 'name'))
    return cases


def gen_choose(ctx):
    rng, cases = ctx.rng, []
    local4 = ['0a003301', '0a003401', '7f000001']      # relay4 / both (v4) / loopback
    for _ in range(10000 if ctx.quick() else 100000):
        mx, names = mx_answer(rng)
        h = rng.choice([b'[10.0.51.1]', b'[2001:db8::32:1]']) if rng.random() < 0.05 else None
        ifs = []
        for _ in range(rng.choice([0, 1, 1, 2, 3])):
            q = rng.random()
            if q < 0.5:
                ifs.append('4' + rng.choice(local4))
            elif q < 0.8:
                ifs.append('6' + rng.choice([v6(50, 1), v6(52, 2), v6(53, 2), '00' * 15 + '01']))
            else:
                ifs.append(rng.choice(['o', 'n']))
        ifarg = 'F' if rng.random() < 0.04 else (','.join(ifs) or '-')
        cs = [rng.choice('kkc' if rng.random() < 0.5 else 'kcccc') for _ in range(rng.randrange(0, 9))]
        ss = session_tokens(rng, rng.random() < 0.9, cs.count('k'))
        cases.append(route_case(ctx, 'choose', h, ' mx=%s if=%s cs=%s ss=%s' % (mx, ifarg, ','.join(cs) or '-', ss),
                                quality=rng.choice([1.0, 1.0, 1.0, 0.6]), nodir=0.6))
        ctx.count('choose')
    # a host whose only IPv6 address is one of this machine's, next to hosts of the same preference that have a foreign
    # IPv6 address: what is left of it is an IPv4-only entry and comes behind them (seeded change c20-m9 sorted the
    # list before the local addresses were taken out)
    for first in (b'both.example.net',):
        for other in (b'multi.example.net', b'mail.example.net', b'MAIL.example.net'):
            for order in ((first, other), (other, first)):
                for pref in (5, 10, 300):
                    for cs in (['c', 'c', 'c', 'c', 'k'], ['k'], ['c', 'k'], ['c', 'c', 'c', 'c', 'c', 'c']):
                        mx = ';'.join('%d/%s' % (pref, hexs(n)) for n in order)
                        ss = session_tokens(rng, True, cs.count('k'))
                        cases.append(route_case(ctx, 'choose', None, ' mx=%s if=%s cs=%s ss=%s' % (mx, '6' + v6(52, 2), ','.join(cs), ss), quality=1.0, nodir=1.0))
                        ctx.count('choose:own-ipv6-among-equal-preference')
    return cases


def pred_connmx(case, impl):
    if impl.startswith('SKIP'):
        return None
    return 'chk_connmx ' + case.split(' ', 1)[1] + ' | ' + impl


def pred_choose(case, impl):
    if impl.startswith('SKIP'):
        return None
    return 'chk_run ' + case.split(' ', 1)[1] + ' | ' + impl


# ------------------------------------------------------------------------------------------------

JOBS = [
    ('sortmx', gen_sortmx, pred_sortmx, 'model QsmtpModel.Mx.sortmx vs lib/dns_helpers.c:sortmx'),
    ('filter_my_ips', gen_filter, pred_filter, 'model QsmtpModel.Mx.filterMyIps vs lib/ipme.c:filter_my_ips'),
    ('tryconn', gen_tryconn, None, 'model QsmtpModel.Mx.tryconn vs qremote/conn.c:tryconn'),
    ('connect_mx', gen_connmx, pred_connmx, 'model QsmtpModel.Mx.connectMx vs qremote/conn_mx.c:connect_mx'),
    ('smtproute', gen_route, pred_route, 'model QsmtpModel.Routes.smtproute vs qremote/smtproutes.c:smtproute'),
    ('getmxlist', gen_getmx, None, 'model QsmtpModel.Routes.getmxlist vs qremote/conn.c:getmxlist + lib/qdns.c:ask_dnsmx'),
    ('choose', gen_choose, pred_choose, 'model QsmtpModel.Routes.choose vs getmxlist/filter_my_ips/sortmx/connect_mx in the order of qremote.c:main'),
]
OPJOB = {'sortmx': 0, 'filter': 1, 'tryconn': 2, 'connmx': 3, 'route': 4, 'getmx': 5, 'choose': 6}


def corpus_cases():
    out = {}
    cdir = os.path.join(vlib.VERIF, 'corpus', 'C20')
    if os.path.isdir(cdir):
        for f in sorted(os.listdir(cdir)):
            for line in open(os.path.join(cdir, f)):
                line = line.strip()
                if line and not line.startswith('#'):
                    out.setdefault(line.split(' ', 1)[0], []).append(line)
    return out


def known_class(f, case, impl, clause):
    cls = f.get('class', '')
    if cls == 'c20-sortmx-v6-behind-nonhead-v4':
        return case.startswith('sortmx ') and 'v6-first-at-equal-priority' in clause
    return False


def build(ctx):
    # parse_route_params() is declared nonnull(4) but gets array == NULL for an empty settings file; the
    # pointer is only handed to free().  UBSan's attribute check would turn that into a crash.
    return vlib.build_harness(ctx, 'h_routes', extra=['-fno-sanitize=nonnull-attribute'])


def outcome_class(o):
    w = o.split(' ')
    if w[0] == 'conferr':
        return 'conferr-' + (w[1] if len(w) > 1 else '')
    if w[0] == 'exit':
        st = w[2][7:] if len(w) > 2 else ''
        try:
            return 'exit-' + (bytes.fromhex(st)[:6].decode('latin1') if st != '-' else 'nostatus')
        except ValueError:
            return 'exit'
    if w[0] == 'ret':
        return 'ret' + w[1]
    if w[0] == 'ok' and len(w) > 1 and w[1].startswith('port='):
        return 'ok-' + w[1] + ('-route' if ' mx=0:' in o else '')
    return w[0][:12]


def henv(ctx):
    return dict(vlib.ENV, H_SCRATCH=ctx.scratch)


def run(ctx):
    vlib.lean_prepare(ctx, REQUIRED)
    h = build(ctx)
    if h:
        corpus = corpus_cases()
        env = henv(ctx)
        for name, gen, pred, corr in JOBS:
            op = [o for o, j in OPJOB.items() if JOBS[j][0] == name][0]
            cases = corpus.get(op, [])
            ctx.count('corpus:' + name, len(cases))
            cases = cases + gen(ctx)
            differential_env(ctx, name, h, cases, pred, corr, env)
    if not ctx.quick():
        vlib.leanchecker(ctx, ['QsmtpModel.Props.C20', 'QsmtpModel.Lemmas.Mx', 'QsmtpModel.Lemmas.Routes'])
    return vlib.finish(ctx, assumptions=[
        'file system, DNS (dnsip6/dnsmx), access(2), inet_pton(3), getifaddrs(3), connect(2) and the SMTP dialogue (netget/greeting/tls_init/dnstlsa) are oracles; theorems hold for all their answers',
        'a file name longer than 255 bytes cannot be opened (ENAMETOOLONG) and target names contain no "/"',
        'qsort() with a comparator that calls two addresses equal keeps some order of them (glibc: stable)',
        'an "address" is a position in the MX list: the same IP listed under two MX names is two candidates',
        'control/outgoingip, control/outgoingip6 are read by remote_common_setup(), outside this model'])


def differential_env(ctx, name, h, cases, pred, corr, env):
    """vlib.differential with the harness environment (H_SCRATCH)"""
    old = vlib.ENV
    vlib.ENV = env
    try:
        res = vlib.differential(ctx, name, h, cases, pred=pred, corr_name=corr, known_class=known_class,
                                nontrivial=lambda c, o: not o.startswith(('bad-op', 'desync')))
        for c, ho, mo in res:
            ctx.count('outcome:%s:%s' % (name, outcome_class(ho)))
            if 'dead' in mo and ('=dead' in mo or ':dead' in mo or 'ffffdead' in mo):
                ctx.count('generator-gap:pton-table')
        if ctx.distribution.get('generator-gap:pton-table'):
            ctx.notes.append('model asked inet_pton for a string the generator did not tabulate (%s)' % name)
    finally:
        vlib.ENV = old


def replay(ctx, path):
    d = json.load(open(path))
    h = build(ctx)
    case = d.get('case') or (d.get('correspondence_breaks') or [{}])[0].get('case')
    if not case or not h:
        print('nothing to replay'); return 2
    vlib.lean_prepare(ctx, [])
    out = vlib.run_batch(h, [case], env=henv(ctx))[0]
    print('case    :', case[:600])
    print('impl    :', out[:600])
    if ctx.driver:
        print('model   :', vlib.run_batch(ctx.driver, [case])[0][:600])
        op = case.split(' ', 1)[0]
        pred = JOBS[OPJOB[op]][2] if op in OPJOB else None
        if pred:
            print('property:', vlib.run_batch(ctx.driver, [pred(case, out)])[0])
    return 0
