"""C04 — Qremote's delivery reports are well-formed and never claim false success.

Differential tie: harness/h_qremote.c (the real qremote/*.c + lib/netio.c, scripted server at
reader-result level, forked per case) against the Lean model QsmtpModel.QrProto run by the driver;
the executable predicate Spec.Reports.check is evaluated on the *implementation's* output.
"""
import json, os, re, sys
import vlib
from vlib import hexs

REQUIRED = ['tree_is_as_modelled', 'no_fault', 'exit_zero_nonempty', 'reports_wellformed_partial',
            'reports_wellformed_counterexample', 'K_only_after_2xx_to_dot', 'data_only_if_accepted',
            'envelope_commands_exact']

E, T = ('E', None), ('T', None)
HELO, RHOST, SENDER = b'me.example', b'mx.example [2001:db8::25]', b'sender@a.example'

# message kinds: bytes, need_recode(), and lastlf after the body went out (plain / recoded path)
MSGS = {
    'crlf': (b'Subject: t\r\n\r\nhi\r\n', 0, 1, 1),
    'nolf': (b'Subject: t\r\n\r\nhi', 0, 0, 0),
    'lf': (b'Subject: t\n\nhi\n', 0, 1, 1),
    '8bit': (b'Subject: t\r\n\r\nh\xc3\xa4\r\n', 1, 1, 1),
    '8bitnolf': (b'Subject: t\r\n\r\nh\xc3\xa4', 1, 0, 0),
}


def item(x):
    if isinstance(x, (bytes, str)):
        k, v = 'L', x
    else:
        k, v = x
    if k in 'LB':
        v = v.encode('latin1') if isinstance(v, str) else v
        return k + (v.hex() if v else '')
    if k == 'R':
        e, pre = v if isinstance(v, tuple) else (v, b'')
        return 'R%d' % e + (':' + pre.hex() if pre else '')
    if k == 'G':
        return 'G%d' % v
    return k


def mkcase(script, rcpts, msgkind='crlf', conns=1, tls=(), has8=False, sender=SENDER, helo=HELO, rhost=RHOST):
    msg, rf, ll_plain, ll_qp = MSGS[msgkind]
    qp = (rf & 1) and not has8
    return 'qr %s %s %s %s %s %d %s %s %d %d' % (
        hexs(helo), hexs(rhost), hexs(sender), ','.join(hexs(r) for r in rcpts) or '-', hexs(msg), conns,
        ','.join(str(t) for t in tls) or '-', ','.join(item(i) for i in script) or '-', rf, ll_qp if qp else ll_plain)


def hline(case):
    return ' '.join(case.split()[:9])


# ---- reply kinds ------------------------------------------------------------------------------
def kinds(code_ok):
    """name -> list of script items standing for one (possibly broken) reply; code_ok = nominal code"""
    c = code_ok
    return {
        'ok': ['%d fine' % c],
        '2xx': ['250 ok'], '2xx-b': ['299 ok'], '4xx': ['451 try later'], '4xx-b': ['400 x'], '4xx-c': ['499 x'],
        '5xx': ['550 no'], '5xx-b': ['599 x'], '3xx': ['354 go on'], '3xx-b': ['300 x'], '1xx': ['150 x'], '6xx': ['650 x'],
        'ml-ok': ['%d-a' % c, '%d-b' % c, '%d c' % c], 'ml2': ['250-a', '250 b'], 'ml4': ['450-a', '450-b', '450 c'],
        'ml5': ['550-a', '550 b'], 'mixed25': ['250-a', '550 b'], 'mixed52': ['550-a', '250 b'], 'mixed42': ['450-a', '250 b'],
        'nocode': ['hello there'], 'short': ['250'], 'nosep': ['250x ok'], 'empty': [''], 'sp': ['    '],
        'long': [('G', 7)], 'barelf': [('B', b'250 ok')], 'eof': [E], 'timeout': [T],
        'rst': [('R', 104)], 'rtimeout': [('R', 110)], 'eio': [('R', 5)], 'epipe': [('R', 32)], 'enomem': [('R', 12)],
        'partial-rst': [('R', (104, b'250-'))], 'partial-eio': [('R', (5, b'55'))],
        'nul': [b'250-a\x00Kforged', b'250 b'], 'nul5': [b'550-a\x00Kforged', b'550 b'], 'nul-first': [b'550 a\x00b'],
        'ml2-eof': ['250-a', E], 'ml4-eof': ['450-a', E], 'ml5-eof': ['550-a', '550-b', E], 'ml4-bad': ['450-a', ('B', b'x')],
        'ml5-timeout': ['550-a', T], 'ml5-nocode': ['550-a', 'what'], 'ml4-rst': ['450-a', ('R', 104)], 'ml5-eio': ['550-a', ('R', 5)],
        '8bit': [b'550 n\xf6 \xff'], 'max': ['250 ' + 'x' * 995], 'dash-only': ['250-'],
    }


EXTS = {
    'none': [], 'pipe': ['PIPELINING'], 'size': ['SIZE 10000'], '8bit': ['8BITMIME'], 'all': ['SIZE', 'PIPELINING', '8BITMIME', 'AUTH PLAIN LOGIN', 'SMTPUTF8'],
    'pipe8': ['pipelining', '8bitmime'], 'pipesize': ['PIPELINING', 'SIZE 5'],
}


def ehlo_reply(exts):
    lines = ['250-mx.example'] + ['250-' + e for e in exts]
    lines[-1] = lines[-1][:3] + ' ' + lines[-1][4:]
    return lines


def session(n, ext, repl=None, tail=('221 bye',), rcpt_classes=None):
    """nominal script for n recipients; repl: {position: list of items}.
    positions: 'greet', 'ehlo', 'mail', ('rcpt', i), 'data', 'dot'"""
    repl = repl or {}
    rc = rcpt_classes or ['250 ok'] * n
    s = []
    s += repl.get('greet', ['220 mx.example ESMTP'])
    s += repl.get('ehlo', ehlo_reply(EXTS[ext]))
    s += repl.get('mail', ['250 sender ok'])
    for i in range(n):
        s += repl.get(('rcpt', i), [rc[i]])
    s += repl.get('data', ['354 go ahead'])
    s += repl.get('dot', ['250 queued as 4711'])
    s += list(tail)
    return s


def rcpts_for(n, rng=None, length=None):
    out = []
    for i in range(n):
        lp = 'r%d' % i
        if rng is not None and length:
            lp += 'x' * rng.choice(length)
        out.append(('%s@b%d.example' % (lp, i % 3)).encode())
    return out


def gen_cases(ctx):
    rng = ctx.rng
    quick = ctx.quick()
    cases = []

    def add(c, tag):
        cases.append(c)
        ctx.count('shape:' + tag)

    cdir = os.path.join(vlib.VERIF, 'corpus', 'C04')
    if os.path.isdir(cdir):
        for f in sorted(os.listdir(cdir)):
            for line in open(os.path.join(cdir, f)):
                if line.strip() and not line.startswith('#'):
                    add(line.strip(), 'corpus')
    # (a) exhaustive: one fault per script, every position x every kind x extension sets x 1..3 recipients
    for n in (1, 2, 3):
        for ext in (EXTS if not quick else ['none', 'pipe', 'all']):
            has8 = any('8bitmime' in e.lower() for e in EXTS[ext])
            add(mkcase(session(n, ext), rcpts_for(n), has8=has8), 'nominal')
            positions = ['greet', 'ehlo', 'mail'] + [('rcpt', i) for i in range(n)] + ['data', 'dot']
            for pos in positions:
                nominal = {'greet': 220, 'ehlo': 250, 'mail': 250, 'data': 354, 'dot': 250}.get(pos, 250)
                for kname, its in kinds(nominal).items():
                    for tail in ((('221 bye',), (E,)) if not quick else (('221 bye',),)):
                        mk = 'crlf' if quick else rng.choice(list(MSGS))
                        add(mkcase(session(n, ext, {pos: its}, tail=tail), rcpts_for(n), msgkind=mk, has8=has8, conns=1), 'one-fault')
    # thorough: exhaustive pairs of faults for two recipients
    if not quick:
        n = 2
        positions = ['greet', 'ehlo', 'mail', ('rcpt', 0), ('rcpt', 1), 'data', 'dot']
        nominal = {'greet': 220, 'ehlo': 250, 'mail': 250, 'data': 354, 'dot': 250}
        for ext in ('none', 'pipe'):
            for i, p1 in enumerate(positions):
                for p2 in positions[i + 1:]:
                    for k1, i1 in kinds(nominal.get(p1, 250)).items():
                        if k1 == 'enomem':
                            continue
                        for k2, i2 in kinds(nominal.get(p2, 250)).items():
                            if k2 == 'enomem':
                                continue
                            add(mkcase(session(n, ext, {p1: i1, p2: i2}), rcpts_for(n)), 'two-faults')
    # EHLO refused -> HELO; every kind as HELO reply
    for kname, its in kinds(250).items():
        for n in (1, 2):
            add(mkcase(session(n, 'none', {'ehlo': ['502 unknown'] + its}), rcpts_for(n)), 'helo-fallback')
    # extension lines: syntax of the arguments, case, unknown words
    for extline in ['SIZE', 'SIZE 0', 'SIZE 12x', 'SIZE  77', 'SIZE -5', 'SIZE +5', 'SIZE \t9', 'SIZE ', 'SIZEX', 'size 10', 'PIPELINING x', 'PIPELINING ',
                    'PIPELININGX', 'pipeLINING', 'STARTTLS', 'STARTTLS x', '8BITMIME', '8BITMIME=1', 'AUTH', 'AUTH  PLAIN', 'AUTH \x01', 'AUTH \xe4', 'AUTH=PLAIN',
                    'SMTPUTF8 foo', 'SMTPUTF8', 'CHUNKING', 'XFOO', '', ' ', 'SIZ', 'AUTH PLAIN\x7f']:
        for last in (True, False):
            lines = ['250-mx'] + (['250 ' + extline] if last else ['250-' + extline, '250 HELP'])
            for tls in ((), (0,), (1003,), (110,), (-1,)):
                if tls and 'STARTTLS' not in extline.upper():
                    continue
                sc = session(2, 'none', {'ehlo': [l.encode('latin1') for l in lines]})
                if tls == (0,):
                    sc = sc[:1 + len(lines)] + ehlo_reply(EXTS['pipe']) + sc[1 + len(lines):]
                add(mkcase(sc, rcpts_for(2), tls=tls, conns=2), 'ext-line')
    # several mail exchangers: failures before the envelope move on to the next connection
    for kname, its in kinds(220).items():
        for pos in ('greet', 'ehlo'):
            for conns in (1, 2, 3):
                first = session(1, 'none', {pos: its})
                cut = 1 + len(its) if pos == 'ehlo' else len(its)
                add(mkcase(first[:cut] + ['221 bye'] + session(2, 'pipe'), rcpts_for(2), conns=conns), 'multi-mx')
    add(mkcase([], rcpts_for(1), conns=0), 'no-connection')
    add(mkcase(session(1, 'none'), [], conns=1), 'no-recipient')
    # (b) random: several faults, up to 9 recipients (and long lists for the batching rule), all extension sets
    N = 1500 if quick else 250000
    allkinds = list(kinds(250).items())
    for _ in range(N):
        r = rng.random()
        n = rng.randrange(1, 10) if r < 0.8 else rng.randrange(10, 40)
        ext = rng.choice(list(EXTS))
        has8 = any('8bitmime' in e.lower() for e in EXTS[ext])
        classes = [rng.choice(['250 ok', '250 ok', '250 ok', '451 later', '550 no', '552-full\n', '252 maybe']) for _ in range(n)]
        classes = [c if '\n' not in c else '550 full' for c in classes]
        repl = {}
        positions = ['greet', 'ehlo', 'mail'] + [('rcpt', i) for i in range(n)] + ['data', 'dot']
        for _k in range(rng.choice([0, 1, 1, 2, 2, 3, 4])):
            pos = rng.choice(positions[2:]) if rng.random() < 0.8 else rng.choice(positions)
            nominal = {'greet': 220, 'ehlo': 250, 'mail': 250, 'data': 354, 'dot': 250}.get(pos, 250)
            kn, its = rng.choice([k for k in kinds(nominal).items() if k[0] != 'enomem'])   # see gen_enomem_drain
            if pos == 'ehlo' and rng.random() < 0.5:
                continue
            repl[pos] = its
        tail = rng.choice([('221 bye',), (E,), (), ('221-a', '221 b'), (T,), (('R', 104),), ('garbage',)])
        sc = session(n, ext, repl, tail=tail, rcpt_classes=classes)
        if rng.random() < 0.15:
            sc = sc[:rng.randrange(0, len(sc) + 1)]
        mk = rng.choice(list(MSGS))
        add(mkcase(sc, rcpts_for(n, rng, [0, 0, 1, 20, 60]), msgkind=mk, has8=has8, conns=rng.choice([1, 1, 1, 2, 3])), 'random-faults')
    # (c) malformed / random lines anywhere
    alpha = [b'2', b'5', b'0', b'4', b'3', b' ', b'-', b'x', b'\x00', b'\xff', b'K', b'Z', b'\t']
    for _ in range(400 if quick else 60000):
        n = rng.randrange(1, 4)
        sc = []
        for _i in range(rng.randrange(0, 12)):
            r = rng.random()
            if r < 0.55:
                sc.append(rng.choice(['220 a', '250 a', '250-a', '354 a', '450 a', '550 a', '550-a', '221 a', '250 PIPELINING', '250-PIPELINING', '250-STARTTLS']))
            elif r < 0.85:
                sc.append(b''.join(rng.choice(alpha) for _j in range(rng.randrange(0, 9))))
            else:
                sc.append(rng.choice([E, T, ('R', 104), ('R', 110), ('R', 5), ('G', rng.randrange(0, 900)), ('B', b'250 x'), ('R', (32, b'250'))]))
        add(mkcase(sc, rcpts_for(n), conns=rng.randrange(0, 4), tls=tuple(rng.choice([0, 0, 1003, 104, -1]) for _j in range(rng.randrange(0, 3)))), 'random-lines')
    # (d) thresholds: longest lines the reader accepts, batches around the netmsg[] bound
    for L in (993, 994, 995):
        for pos in ('mail', ('rcpt', 0), 'dot'):
            for code in ('250', '450', '550'):
                for ml in (False, True):
                    its = [code + '-' + 'y' * L, code + ' ' + 'z' * L] if ml else [code + ' ' + 'z' * L]
                    add(mkcase(session(2, 'pipe', {pos: its}), rcpts_for(2)), 'long-lines')
    for n in list(range(1, 14)) + [16, 17, 20, 21, 33]:
        for ext in ('pipe', 'all', 'none'):
            add(mkcase(session(n, ext), rcpts_for(n), has8=(ext == 'all')), 'batches')
            add(mkcase(session(n, ext, {'mail': ['550 no']}), rcpts_for(n), has8=(ext == 'all')), 'batches-mail-rejected')
    return cases


def gen_long_addresses(ctx):
    """addresses long enough for net_writen() to fold the command: model tie only (the folded command is
    outside the contract of the envelope clause, see the claim)"""
    rng = ctx.rng
    cases = []
    for L in (100, 200, 480, 490, 495, 500, 505, 510, 600, 1100):
        for ext in ('none', 'pipe', 'size'):
            r = [(b'r' + b'x' * L + b'@b.example')]
            cases.append(mkcase(session(1, ext), r))
            cases.append(mkcase(session(1, ext), rcpts_for(1), sender=b's' + b'y' * L + b'@a.example'))
    return cases


def gen_enomem_drain(ctx):
    """read() failing with ENOMEM while the replies to pipelined recipients are drained after a rejected
    MAIL FROM: netget() ends the program on ENOMEM whatever `terminate` says, so a second message report
    is written.  Outside the theorems' quantifier (hypothesis NoEnomem; not a behaviour of the server):
    compared with the model only."""
    cases = []
    for n in (1, 2, 5):
        for mail in (['550 no'], ['451 later'], ['550-a', '550 b']):
            for k in range(n):
                sc = session(n, 'pipe', {'mail': mail, ('rcpt', k): [('R', 12)]})
                cases.append(mkcase(sc, rcpts_for(n)))
    return cases


def pred(case, impl):
    t = case.split()
    if not impl.startswith('exit='):
        return 'chk_reports %s %s FAULT' % (t[3], t[4])
    return 'chk_reports %s %s %s' % (t[3], t[4], impl)


# ---- the letters clause read off script and reports (no model): search support for a concrete witness ----
def _groups(items):
    """well-formed reply groups of a script made of plain lines only, else None"""
    out, cur = [], None
    for it in items:
        if not it.startswith('L'):
            return None
        ln = bytes.fromhex(it[1:])
        if len(ln) < 4 or not ln[:3].isdigit() or ln[3:4] not in (b' ', b'-') or b'\0' in ln or len(ln) > 900:
            return None
        code = int(ln[:3])
        if not 200 <= code <= 599:
            return None
        if cur is not None and cur != code:
            return None
        if ln[3:4] == b'-':
            cur = code
        else:
            out.append(code); cur = None
    return out if cur is None else None


def script_oracle(case, impl):
    """For a server that answers every command with one well-formed reply: recipient k is reported r/s/h
    exactly when its RCPT TO was answered 2xx/4xx/5xx, and K only after 354 and a 2xx to the message."""
    t = case.split()
    if len(t) < 11 or t[6] != '1' or t[7] != '-' or not impl.startswith('exit=0') or t[8] == '-':
        return None
    items = t[8].split(',')
    if any(b'SIZE ' in bytes.fromhex(i[1:]).upper() for i in items if i.startswith('L')):
        return None
    g = _groups(items)
    n = len(t[4].split(',')) if t[4] != '-' else 0
    if g is None or n == 0 or len(g) < 3 + n or not (g[0] == 220 and g[1] == 250 and 200 <= g[2] < 300):
        return None
    m = re.search(r'status=(\S+)', impl)
    if not m or m.group(1) == '-':
        return None
    reports = bytes.fromhex(m.group(1)).split(b'\0')
    if reports and reports[-1] == b'':
        reports.pop()
    want = ''.join('r' if c < 300 else ('s' if c < 500 else 'h') if c >= 400 else '?' for c in g[3:3 + n])
    if '?' in want:
        return None
    got = ''.join(chr(r[0]) if r else '?' for r in reports[:n])
    if got != want:
        return 'fails recipient-letters: server answered %s, reports say %s' % (want, got)
    msg = [r for r in reports[n:]]
    anyok = 'r' in want
    k_ok = anyok and len(g) >= 5 + n and g[3 + n] == 354 and 200 <= g[4 + n] < 300
    has_k = any(r[:1] == b'K' for r in msg)
    if has_k and not k_ok:
        return 'fails K-without-2xx-to-the-message'
    # (the converse - a message the server took is reported K - is not part of the property: a multi-line
    #  354 answer to DATA is reported D although the message is then sent and accepted; observed, see DESIGN.md)
    return None


# ---- known-finding classes --------------------------------------------------------------------
ABORT_TEXTS = [b'Z5.5.2 syntax error in server reply', b'Z4.4.1 connection to remote server died',
               b'Z4.4.1 connection to remote server timed out', b'Z4.3.0 ']


def known_class(f, case, impl, clause):
    """c04-abort-inside-open-report: the only defect is that the status written when a multi-line
    4xx/5xx reply to RCPT TO breaks off (connection lost, time-out, unparsable continuation line)
    landed inside the still open recipient report, so no message report follows an accepted recipient."""
    if f.get('id') == 'c04-quit-write-fails-after-report':
        # the write of the final QUIT failed: dieerror() adds its Z4.4.1 text behind the message report
        m = re.search(r'status=([0-9a-f]+)', impl)
        s = re.search(r'sent=(\S+)', impl)
        if 'more-than-one-message-report' not in clause or not re.search(r' W\d+:\d+$', case) or not m:
            return False
        reports = [r for r in bytes.fromhex(m.group(1)).split(b'\x00') if r]
        sent = s.group(1).split(',') if s else []
        return len(reports) >= 2 and reports[-1].startswith(b'Z4.4.1 connection to remote server ') and reports[-2][:1] in (b'K', b'Z', b'D') \
            and b'QUIT\r\n'.hex() not in sent
    if f.get('id') != 'c04-abort-inside-open-report' or 'message-report-missing' not in clause:
        return False
    m = re.search(r'status=([0-9a-f]+)', impl)
    if not m:
        return False
    st = bytes.fromhex(m.group(1))
    if not st.endswith(b'\n\x00'):
        return False
    last = st[:-1].split(b'\x00')[-1]
    if last[:1] not in (b's', b'h'):
        return False
    lines = last[1:].split(b'\n')
    if lines[-1] != b'' or len(lines) < 3:
        return False
    body, final = lines[:-2], lines[-2]
    return all(len(l) > 3 and l[3:4] == b'-' and l[:3].isdigit() for l in body) and any(final.startswith(a) for a in ABORT_TEXTS)


def setup_harness(ctx):
    inc = vlib.prepare_includes(ctx)
    os.makedirs(os.path.join(inc, 'qremote'), exist_ok=True)
    tmpl = open(os.path.join(vlib.SRC, 'qremote', 'statuscodes.h.tmpl')).read()
    # the baseline build leaves QREMOTE_PEDANTIC_STATUS_CODES off
    open(os.path.join(inc, 'qremote', 'statuscodes.h'), 'w').write(re.sub(r'^#cmakedefine (\w+).*$', r'/* #undef \1 */', tmpl, flags=re.M))
    return vlib.build_harness(ctx, 'h_qremote')


CORR = 'model QsmtpModel.QrProto.run vs qremote/{qremote,conn_mx,greeting,envelope,client,reply,status,qrdata}.c'


def run(ctx):
    vlib.lean_prepare(ctx, REQUIRED)
    h = setup_harness(ctx)
    if h:
        cases = gen_cases(ctx)
        res = vlib.differential(ctx, 'qremote', h, cases, hline=hline, pred=pred, corr_name=CORR, known_class=known_class,
                                nontrivial=lambda c, o: 'status=-' not in o and o.startswith('exit='))
        fails = []
        for c, ho, mo in res:
            v = script_oracle(c, ho)
            if v:
                fails.append((c, ho, v))
            ctx.count('script-oracle:' + ('no-opinion' if v is None and script_oracle(c, 'exit=0 status=00') is None else 'applied'))
        vlib.handle_results(ctx, 'qremote:script-oracle', 'recipient letters and K against the server script', [], fails, known_class)
        # a write() on the socket that fails (the peer has closed: EPIPE; reset; time-out): whatever happens, the
        # reports must keep their shape (exit 0, a message report when a recipient was accepted ...).  Judged by the
        # report specification alone; the model does not script write results.
        wcases = []
        for ext in ('none', 'pipe', 'all'):
            for n in (1, 3):
                base = mkcase(session(n, ext), rcpts_for(n))
                for k in range(0, 9 + n):
                    for e in (32, 104, 110):
                        wcases.append(base + ' W%d:%d' % (k, e))
        wouts = vlib.run_batch([h], [' '.join(c.split()[:9] + [c.split()[11]]) for c in wcases])
        wp = vlib.run_batch(ctx.driver, [pred(c, o) for c, o in zip(wcases, wouts)]) if ctx.driver else []
        wf = [(c, o, p) for c, o, p in zip(wcases, wouts, wp) if not p.startswith('holds')]
        ctx.count('job:write-faults', len(wcases))
        ctx.cov['evaluations'] += len(wcases)
        ctx.cov['traces_validated_against_impl'] += len(wcases)
        vlib.handle_results(ctx, 'qremote:write-faults', 'report specification on runs with a failing socket write', [], wf, known_class)
        vlib.differential(ctx, 'qremote-long-addresses', h, gen_long_addresses(ctx), hline=hline, corr_name=CORR)
        vlib.differential(ctx, 'qremote-enomem-in-drain', h, gen_enomem_drain(ctx), hline=hline, corr_name=CORR)
    if not ctx.quick():
        vlib.leanchecker(ctx, ['QsmtpModel.Props.C04', 'QsmtpModel.Lemmas.QrProto', 'QsmtpModel.Lemmas.QrEnvelope'])
    return vlib.finish(ctx, assumptions=[
        'the server is a script at reader-result level: one item (line | errno | closed | time-out) per net_read() call; lib/netio.c turns bytes into these results (property C05)',
        'writes to the socket and to the status descriptor succeed (a failing write to the socket is not scripted)',
        'tryconn() and tls_init() are oracles: tryconn succeeds a given number of times, tls_init returns a scripted value and has written one Z report when it is negative (contract in starttlsr.c); after a successful tls_init the same script continues (TLS itself is property C18)',
        'the transfer of the message body between the 354 reply and the final dot is abstracted to one marker; need_recode() and lastlf are inputs of the model, observed from the implementation',
        'read() never fails with ENOMEM (theorem hypothesis NoEnomem): netget() ends the program on ENOMEM even while draining, which writes a second message report; compared with the model only',
        'envelope clause: sender and recipients short enough for one 512 octet command line (net_writen folds longer ones; compared with the model only)',
        'glibc strerror() texts for the scripted errno values'])


def replay(ctx, path):
    d = json.load(open(path))
    h = setup_harness(ctx)
    case = d.get('case') or (d.get('correspondence_breaks') or [{}])[0].get('case')
    if not case or not h:
        print('nothing to replay')
        return 2
    vlib.lean_prepare(ctx, [])
    out = vlib.run_batch(h, [hline(case)])[0]
    print('case    :', case[:600])
    print('impl    :', out[:600])
    m = re.search(r'status=([0-9a-f]+)', out)
    if m:
        print('status  :', bytes.fromhex(m.group(1)))
    if ctx.driver:
        print('model   :', vlib.run_batch(ctx.driver, [case])[0][:600])
        print('property:', vlib.run_batch(ctx.driver, [pred(case, out)])[0])
    return 0
