#!/usr/bin/env python3
"""Runs every seeded change under /verif/seeded against its property's check (scratch worktree, see
run_seeded.sh) and writes seeded/RESULTS.md."""
import json, os, subprocess, sys, time
V = os.path.dirname(os.path.dirname(os.path.abspath(__file__)))
rows = []
only = sys.argv[1:]
cache_p = os.path.join(V, 'seeded', 'results.json')
cache = json.load(open(cache_p)) if os.path.exists(cache_p) else {}
for n in sorted(os.listdir(os.path.join(V, 'seeded'))):
    d = os.path.join(V, 'seeded', n)
    if not os.path.isdir(d) or not os.path.exists(os.path.join(d, 'patch.diff')):
        continue
    if only and not any(n.startswith(o) for o in only):
        if n in cache:
            rows.append(tuple(cache[n]))
        continue
    meta = json.load(open(os.path.join(d, 'meta.json'))) if os.path.exists(os.path.join(d, 'meta.json')) else {}
    t = time.time()
    r = subprocess.run([os.path.join(V, 'tools', 'run_seeded.sh'), n], capture_output=True, text=True)
    out = r.stdout.strip()
    vl = [l for l in out.split('\n') if 'VIOLATION' in l]
    if any('no-failing-input-found' not in l for l in vl):
        verdict = 'caught with a concrete witness'
    elif 'VIOLATION' in out:
        verdict = 'caught (proof/correspondence broken, no failing input found)'
    elif 'DOES NOT APPLY' in out:
        verdict = 'patch no longer applies'
    else:
        verdict = 'MISSED'
    rows.append((n, n.split('-')[0].upper(), verdict, round(time.time() - t), (meta.get('summary') or '')[:160].replace('|', '/'), (meta.get('needs') or '')[:160].replace('|', '/')))
    print(rows[-1][:4], flush=True)
    cache[n] = list(rows[-1])
json.dump(cache, open(cache_p, 'w'), indent=1)
with open(os.path.join(V, 'seeded', 'RESULTS.md'), 'w') as f:
    f.write('# Seeded changes and what the checks make of them\n\nEach change compiles, keeps the pinned test-suite green (190/190) and has a demonstration that fails with it '
            '(confirmed by tools/confirm_seed.sh in a scratch worktree). `tools/seed_table.py` re-runs this table.\n\n')
    f.write('| change | property | verdict of `./check` | s | what was changed | what it needs to manifest |\n|---|---|---|---|---|---|\n')
    for r in rows:
        f.write('| %s | %s | %s | %d | %s | %s |\n' % r)
print('missed:', [r[0] for r in rows if r[2] == 'MISSED'])
