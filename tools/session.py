"""Whole-server sessions against the real Qsmtpd code (harness/h_qsmtpd.c): build, scenario
directories, parallel runs, transcript parsing."""
import glob, os, shutil, socket, struct, subprocess
from concurrent.futures import ThreadPoolExecutor
import vlib

QSMTPD_SRC_GLOBS = ['qsmtpd/*.c', 'qsmtpd/filters/*.c', 'qsmtpd/backends/auth_chkpw/*.c', 'qsmtpd/backends/user_vpopm/*.c', 'lib/*.c']
EXCLUDE = {'lib/libowfatconn.c'}


def build_qsmtpd(ctx, defs=(), name='h_qsmtpd'):
    """compile every source of the working tree with the sanitizers and link the in-process server"""
    inc = vlib.prepare_includes(ctx, autoqmail='/proc/self/cwd')
    objdir = os.path.join(ctx.scratch, name + '.o')
    os.makedirs(objdir, exist_ok=True)
    srcs = []
    for g in QSMTPD_SRC_GLOBS:
        for f in sorted(glob.glob(os.path.join(vlib.SRC, g))):
            rel = os.path.relpath(f, vlib.SRC)
            if rel not in EXCLUDE:
                srcs.append((f, rel))
    srcs.append((os.path.join(vlib.VERIF, 'harness', 'stub_dns.c'), 'stub_dns.c'))
    srcs.append((os.path.join(vlib.VERIF, 'harness', 'h_qsmtpd.c'), 'h_qsmtpd.c'))
    base = vlib.BASE_FLAGS + list(defs) + ['-I' + inc, '-I' + os.path.join(vlib.SRC, 'include'), '-I' + os.path.join(vlib.VERIF, 'harness')]

    def cc(item):
        f, rel = item
        o = os.path.join(objdir, rel.replace('/', '_') + '.o')
        extra = ['-Dmain=qsmtpd_main'] if rel == 'qsmtpd/qsmtpd.c' else []
        if rel == 'lib/log.c':
            extra.append('-DNOSTDERR')
        if rel == 'qsmtpd/child.c':
            extra.append('-DHAS_PIPE2')        # as the baseline build on Linux does
        r = vlib.sh(['gcc'] + base + extra + ['-c', f, '-o', o])
        return (o, r.returncode, r.stdout)
    with ThreadPoolExecutor(max_workers=vlib.NCPU) as ex:
        res = list(ex.map(cc, srcs))
    bad = [(o, out) for o, rc, out in res if rc != 0]
    if bad:
        ctx.unshown.append('harness %s does not build against the working tree: %s' % (name, bad[0][1][-1200:]))
        return None
    out = os.path.join(ctx.scratch, name)
    cov = ['--coverage'] if vlib.COV else []
    r = vlib.sh(['gcc', '-fsanitize=address,undefined'] + cov + ['-o', out] + [o for o, _, _ in res] + ['-lssl', '-lcrypto', '-lowfat'])
    if r.returncode != 0:
        r = vlib.sh(['gcc', '-fsanitize=address,undefined'] + cov + ['-o', out] + [o for o, _, _ in res] + ['-lssl', '-lcrypto'])
    if r.returncode != 0:
        ctx.unshown.append('harness %s does not link: %s' % (name, r.stdout[-1500:]))
        return None
    for helper in ('qq_standin', 'chkpw_standin'):
        src = os.path.join(vlib.VERIF, 'harness', helper + '.c')
        if os.path.exists(src):
            vlib.sh(['gcc', '-O1', '-o', os.path.join(ctx.scratch, helper), src])
    return out


# ------------------------------------------------------------------------------------------------
# cdb writer (users/cdb)

def cdb_hash(k):
    h = 5381
    for c in k:
        h = ((h << 5) + h) & 0xffffffff
        h ^= c
    return h


def cdb_make(items):
    recs = b''
    pos = 2048
    tables = [[] for _ in range(256)]
    for k, v in items:
        recs += struct.pack('<II', len(k), len(v)) + k + v
        h = cdb_hash(k)
        tables[h & 255].append((h, pos))
        pos += 8 + len(k) + len(v)
    header = b''
    tabs = b''
    for t in tables:
        n = len(t) * 2
        header += struct.pack('<II', pos, n)
        slots = [(0, 0)] * n
        for h, p in t:
            i = (h >> 8) % n
            while slots[i][1]:
                i = (i + 1) % n
            slots[i] = (h, p)
        for h, p in slots:
            tabs += struct.pack('<II', h, p)
        pos += 8 * n
    return header + recs + tabs


# ------------------------------------------------------------------------------------------------
# scenarios

def ipbl_record(net, prefix):
    """binary IP list record: address bytes + prefix length (as tools/addipbl writes them)"""
    if ':' in net:
        return socket.inet_pton(socket.AF_INET6, net) + bytes([prefix])
    return socket.inet_pton(socket.AF_INET, net) + bytes([prefix])


class Scenario:
    """everything one session needs; written into its own directory"""

    def __init__(self, **kw):
        self.remoteip = kw.get('remoteip', '::ffff:192.0.2.24')
        self.localip = kw.get('localip', '::ffff:192.0.2.1')
        self.port = kw.get('port', '25')
        self.remoteport = kw.get('remoteport', '4711')
        self.env = dict(kw.get('env', {}))
        self.control = dict(kw.get('control', {}))          # name -> bytes
        self.control.setdefault('me', b'mx.local.example\n')
        self.domains = dict(kw.get('domains', {}))          # domain -> {relative path: bytes | None (directory)}
        self.zone = list(kw.get('zone', []))                # lines for dnszone
        self.qq = list(kw.get('qq', []))                    # lines for qqscript
        self.items = list(kw.get('items', []))              # ('S', bytes) | ('W',)
        self.extra_files = dict(kw.get('files', {}))        # relative path -> bytes
        self.args = list(kw.get('args', []))                # argv of Qsmtpd (auth setup)
        self.modes = dict(kw.get('modes', {}))              # relative path -> chmod mode

    def write(self, d, standins):
        os.makedirs(os.path.join(d, 'control'))
        os.makedirs(os.path.join(d, 'bin'))
        os.makedirs(os.path.join(d, 'users'))
        os.makedirs(os.path.join(d, 'queue'))
        for k, v in self.control.items():
            p = os.path.join(d, 'control', k)
            os.makedirs(os.path.dirname(p), exist_ok=True)
            if v is None:
                os.makedirs(p, exist_ok=True)
            else:
                open(p, 'wb').write(v)
        items = []
        for dom, tree in self.domains.items():
            dd = os.path.join(d, 'domains', dom)
            os.makedirs(dd, exist_ok=True)
            for rel, content in tree.items():
                p = os.path.join(dd, rel)
                if content is None:
                    os.makedirs(p, exist_ok=True)
                else:
                    os.makedirs(os.path.dirname(p), exist_ok=True)
                    open(p, 'wb').write(content)
            items.append((b'!' + dom.encode() + b'-', dom.encode() + b'\0' + b'89\0' + b'89\0' + dd.encode() + b'\0'))
        if items:
            open(os.path.join(d, 'users', 'cdb'), 'wb').write(cdb_make(items))
        for rel, content in self.extra_files.items():
            p = os.path.join(d, rel)
            os.makedirs(os.path.dirname(p), exist_ok=True)
            open(p, 'wb').write(content)
        for rel, mode in self.modes.items():
            os.chmod(os.path.join(d, rel), mode)
        open(os.path.join(d, 'dnszone'), 'w').write('\n'.join(self.zone) + '\n')
        open(os.path.join(d, 'qqscript'), 'w').write('\n'.join(self.qq) + ('\n' if self.qq else ''))
        env = {'TCP6REMOTEIP': self.remoteip, 'TCP6LOCALIP': self.localip, 'TCPLOCALPORT': self.port,
               'TCPREMOTEPORT': self.remoteport,
               'TCPLOCALIP': self.localip[7:] if self.localip.startswith('::ffff:') else self.localip}
        env.update(self.env)
        open(os.path.join(d, 'env'), 'w').write(''.join('%s=%s\n' % kv for kv in env.items() if kv[1] is not None))
        with open(os.path.join(d, 'script'), 'w') as f:
            for it in self.items:
                if it[0] == 'W':
                    f.write('W\n')
                else:
                    f.write('S %s\n' % (it[1].hex() or '-'))
        os.symlink(standins['qq_standin'], os.path.join(d, 'bin', 'qmail-queue'))


class Result:
    """parsed outcome of one session"""

    def __init__(self, d, rc, stderr):
        self.rc, self.stderr = rc, stderr
        self.writes, self.reads, self.states, self.logs = [], [], [], []
        self.events = []       # ('R', bytes) / ('W', bytes) / ('T', tuple) in order
        self.exit = None
        tp = os.path.join(d, 'transcript')
        if os.path.exists(tp):
            for line in open(tp, errors='replace'):
                line = line.rstrip('\n')
                if line.startswith('W '):
                    b = vlib.unhex(line[2:]); self.writes.append(b); self.events.append(('W', b))
                elif line.startswith('R '):
                    b = vlib.unhex(line[2:]); self.reads.append(b); self.events.append(('R', b))
                elif line.startswith('T '):
                    t = line[2:].split(); self.states.append(t); self.events.append(('T', t))
                elif line.startswith('G '):
                    self.logs.append(line[2:])
                elif line.startswith('X '):
                    self.exit = int(line[2:])
                elif line.startswith('F '):
                    self.outlimit = True
        self.handoffs = []
        self.handoff_codes = []     # exit code the stand-in child was told to use (None: it did not get that far)
        n = 0
        while os.path.exists(os.path.join(d, 'qq.%d.msg' % n)):
            msg = open(os.path.join(d, 'qq.%d.msg' % n), 'rb').read()
            envp = os.path.join(d, 'qq.%d.env' % n)
            env = open(envp, 'rb').read() if os.path.exists(envp) else b''
            self.handoffs.append((msg, env))
            dp = os.path.join(d, 'qq.%d.done' % n)
            try:
                self.handoff_codes.append(int(open(dp).read().strip()))
            except (OSError, ValueError):
                self.handoff_codes.append(None)
            n += 1
        qp = os.path.join(d, 'dnsqueries')
        self.dnsqueries = open(qp).read().split('\n')[:-1] if os.path.exists(qp) else []
        self.fault = None
        if rc not in (0,) and ('AddressSanitizer' in stderr or 'runtime error' in stderr):
            self.fault = stderr[:400]
        elif rc == -14:
            self.fault = 'HANG (alarm)'
        elif getattr(self, 'outlimit', False):
            self.fault = 'ENDLESS OUTPUT: the server wrote more than 4 MB of replies in one session'

    def output(self):
        return b''.join(self.writes)

    def replies(self):
        """list of (code, lines) for every complete reply in the output"""
        out, cur = [], []
        for ln in self.output().split(b'\r\n')[:-1]:
            cur.append(ln)
            if len(ln) < 4 or ln[3:4] != b'-':
                out.append((ln[:3].decode('latin1'), cur)); cur = []
        return out

    def codes(self):
        return [c for c, _ in self.replies()]


def run_sessions(ctx, binary, scenarios, keep=False, extra_env=None, args_default=()):
    """runs each scenario in its own directory and process; returns Results in order"""
    standins = {'qq_standin': os.path.join(ctx.scratch, 'qq_standin'), 'chkpw_standin': os.path.join(ctx.scratch, 'chkpw_standin')}
    root = os.path.join(ctx.scratch, 'sess')
    os.makedirs(root, exist_ok=True)
    base = len(os.listdir(root))

    def one(iv):
        i, sc = iv
        d = os.path.join(root, 's%07d' % (base + i))
        sc.write(d, standins)
        env = dict(vlib.ENV)
        if extra_env:
            env.update(extra_env)
        try:
            p = subprocess.run([binary, d] + [a.replace('@CHKPW@', standins['chkpw_standin']) for a in (sc.args or list(args_default))],
                               stdin=subprocess.DEVNULL, stdout=subprocess.PIPE, stderr=subprocess.PIPE, env=env, timeout=60)
            rc, err = p.returncode, p.stderr.decode(errors='replace')
        except subprocess.TimeoutExpired:
            rc, err = -14, 'timeout'
        r = Result(d, rc, err)
        if not keep:
            shutil.rmtree(d, ignore_errors=True)
        else:
            r.dir = d
        return r
    with ThreadPoolExecutor(max_workers=vlib.NCPU) as ex:
        return list(ex.map(one, enumerate(scenarios)))


def lockstep(lines):
    """client that waits for the server before every line: [('W',), ('S', line), ...]"""
    items = [('W',)]
    for ln in lines:
        items.append(('S', ln))
        items.append(('W',))
    return items
