"""World of the C17 check (server side of STARTTLS): a test PKI made with the openssl CLI per run,
scenarios for the whole-server harness in its scripted mode and in its real-I/O mode (H_REALIO=2:
a socketpair, framed segments, a Python `ssl` client through memory BIOs, so that every byte and
every segment boundary the server sees is chosen here), the observation stream for the Lean
predicate `Spec.StartTlsSrv.check`, and the request line for the Lean model `stls`."""
import json, os, select, shutil, socket, ssl, struct, subprocess, time
from concurrent.futures import ThreadPoolExecutor
import vlib, session, smtpworld

LOCALIP = '::ffff:192.0.2.1'


# ------------------------------------------------------------------------------------------------
# PKI

def _openssl(args, cwd):
    r = subprocess.run(['openssl'] + args, cwd=cwd, stdout=subprocess.PIPE, stderr=subprocess.STDOUT, text=True)
    if r.returncode != 0:
        raise RuntimeError('openssl %s: %s' % (' '.join(args), r.stdout[-400:]))


def make_pki(ctx):
    """CA + server certificate (+ a second key that does not belong to it) in the scratch directory"""
    d = os.path.join(ctx.scratch, 'pki')
    os.makedirs(d, exist_ok=True)
    _openssl(['req', '-x509', '-newkey', 'rsa:2048', '-nodes', '-keyout', 'ca.key', '-out', 'ca.pem', '-subj', '/CN=C17 test CA', '-days', '3'], d)
    _openssl(['req', '-newkey', 'rsa:2048', '-nodes', '-keyout', 'server.key', '-out', 'server.csr', '-subj', '/CN=mx.local.example'], d)
    _openssl(['x509', '-req', '-in', 'server.csr', '-CA', 'ca.pem', '-CAkey', 'ca.key', '-CAcreateserial', '-out', 'server.crt', '-days', '3'], d)
    _openssl(['genrsa', '-out', 'other.key', '2048'], d)
    rd = lambda n: open(os.path.join(d, n), 'rb').read()
    pki = {'dir': d, 'ca': os.path.join(d, 'ca.pem'), 'cert': rd('server.crt'), 'key': rd('server.key'), 'otherkey': rd('other.key')}
    # certificates that tell which file find_servercert() picked (same key, different CN)
    for cn in ('ip', 'ipport'):
        _openssl(['req', '-new', '-key', 'server.key', '-out', cn + '.csr', '-subj', '/CN=' + cn], d)
        _openssl(['x509', '-req', '-in', cn + '.csr', '-CA', 'ca.pem', '-CAkey', 'ca.key', '-CAcreateserial', '-out', cn + '.crt', '-days', '3'], d)
        pki['cert_' + cn] = rd(cn + '.crt')
    pki['cert_general'] = pki['cert']
    # client certificates for relaying by certificate (control/clientca.pem + control/tlsclients):
    # name -> subject; 'cc_otherca' carries a listed name but is signed by the server CA, not the client CA
    _openssl(['req', '-x509', '-newkey', 'rsa:2048', '-nodes', '-keyout', 'clientca.key', '-out', 'clientca.pem', '-subj', '/CN=C01 client CA', '-days', '3'], d)
    pki['clientca'] = rd('clientca.pem')
    _openssl(['genrsa', '-out', 'client.key', '2048'], d)
    for name, subj, ca in CLIENT_CERTS:
        _openssl(['req', '-new', '-key', 'client.key', '-out', name + '.csr', '-subj', subj], d)
        _openssl(['x509', '-req', '-in', name + '.csr', '-CA', ca + '.pem', '-CAkey', ca + '.key', '-CAcreateserial', '-out', name + '.crt', '-days', '3'], d)
    return pki


# client certificates: (file name, subject, signing CA); the name the server looks up in control/tlsclients is
# the emailAddress if there is one, else the CN
CLIENT_CERTS = [
    ('cc_email', '/CN=Some One/emailAddress=relay@partner.example', 'clientca'),
    ('cc_cn', '/CN=mx.partner.example', 'clientca'),
    ('cc_prefix', '/CN=mx.partner.exam', 'clientca'),
    ('cc_longer', '/CN=mx.partner.example.attacker.test', 'clientca'),
    ('cc_upper', '/CN=MX.PARTNER.EXAMPLE', 'clientca'),
    ('cc_emailprefix', '/CN=x/emailAddress=relay@partner.exa', 'clientca'),
    ('cc_cn_listed_email_not', '/CN=mx.partner.example/emailAddress=nobody@elsewhere.example', 'clientca'),
    ('cc_otherca', '/CN=mx.partner.example', 'ca'),
]
CLIENT_NAME = {'cc_email': b'relay@partner.example', 'cc_cn': b'mx.partner.example', 'cc_prefix': b'mx.partner.exam',
               'cc_longer': b'mx.partner.example.attacker.test', 'cc_upper': b'MX.PARTNER.EXAMPLE', 'cc_emailprefix': b'relay@partner.exa',
               'cc_cn_listed_email_not': b'nobody@elsewhere.example', 'cc_otherca': b'mx.partner.example'}

# ------------------------------------------------------------------------------------------------
# cases

CERT_KINDS = {
    # kind: (model cert verdict, find_servercert() succeeds)
    'u': ('u', 1),        # control/servercert.pem = certificate + key
    'ip': ('u', 1),       # control/servercert.pem.<ip>
    'ipport': ('u', 1),   # control/servercert.pem.<ip>:<port>
    'sepkey': ('u', 1),   # certificate and control/serverkey.pem
    'x': ('x', 1),        # file present, not a certificate
    'badkey': ('x', 1),   # key does not belong to the certificate
    'n': ('x', 0),        # no certificate file at all
    'ciph': ('c', 1),     # control/tlsserverciphers unreadable
}


def control_for(pki, kind, port='25'):
    ip = LOCALIP[7:]
    both = pki['cert'] + pki['key']
    c = {'rcpthosts': (smtpworld.LOCAL + '\n').encode(), 'timeoutsmtpd': b'2\n'}
    if kind == 'u':
        c['servercert.pem'] = both
    elif kind == 'ip':
        c['servercert.pem.' + ip] = both
    elif kind == 'ipport':
        c['servercert.pem.%s:%s' % (ip, port)] = both
    elif kind == 'sepkey':
        c['servercert.pem'] = pki['cert']; c['serverkey.pem'] = pki['key']
    elif kind == 'x':
        c['servercert.pem'] = b'-----BEGIN CERTIFICATE-----\nbm90IGEgY2VydGlmaWNhdGU=\n-----END CERTIFICATE-----\n'
    elif kind == 'badkey':
        c['servercert.pem'] = pki['cert']; c['serverkey.pem'] = pki['otherkey']
    elif kind == 'ciph':
        c['servercert.pem'] = both; c['tlsserverciphers'] = None
    return c


class Case:
    """mode: 'script' | 'tls'; clear/tls: items ('S', bytes) | ('W',); hs: per accepted STARTTLS
    'o' (complete the handshake), 'g<n>' (the next clear item is sent instead of a ClientHello: OpenSSL
    takes n bytes of it; plain 'g' = 5, the record header), 'c' (close), 't' (stay silent), 'a' (a real ClientHello,
    then - after the server's flight - a close_notify alert in place of the rest of the handshake; clear text follows)"""

    def __init__(self, mode, cert='u', port='25', clear=(), tls=(), hs=(), eat=5, tag='', clean=True, localip=None, files=None, ccert=None, tlsclients=None):
        self.mode, self.cert, self.port = mode, cert, port
        self.clear, self.tls, self.hs, self.eat = list(clear), list(tls), list(hs), eat
        self.tag, self.clean = tag, clean
        # certificate name scenarios (cert == 'files'): TCP6LOCALIP text and the files under control/
        # as {name: 'cert+key' | 'cert' | 'key' | 'wrongkey'}; port None = TCPLOCALPORT not set
        self.localip, self.files = localip, files
        # relaying by client certificate: the certificate the client presents (a CLIENT_CERTS name) when asked
        # in a TLS 1.2 renegotiation, and the lines of control/tlsclients (control/clientca.pem is then present)
        self.ccert, self.tlsclients = ccert, tlsclients

    def dumps(self):
        enc = lambda its: [it[1].hex() if it[0] == 'S' else 'W' for it in its]
        return json.dumps({'mode': self.mode, 'cert': self.cert, 'port': self.port, 'clear': enc(self.clear), 'tls': enc(self.tls),
                           'hs': self.hs, 'eat': self.eat, 'tag': self.tag, 'clean': self.clean,
                           'localip': self.localip, 'files': self.files, 'ccert': self.ccert, 'tlsclients': self.tlsclients}, separators=(',', ':'))

    @staticmethod
    def loads(s):
        d = json.loads(s)
        dec = lambda its: [('W',) if x == 'W' else ('S', bytes.fromhex(x)) for x in its]
        return Case(d['mode'], d['cert'], d['port'], dec(d['clear']), dec(d['tls']), d['hs'], d.get('eat', 5), d.get('tag', ''), d.get('clean', True),
                    d.get('localip'), d.get('files'), d.get('ccert'), d.get('tlsclients'))


def local_ip_text(case):
    """xmitstat.localip: the address as tcpserver gives it, IPv4 form for v4-mapped addresses"""
    ip = case.localip or LOCALIP
    return ip[7:] if ip.startswith('::ffff:') else ip


def cert_kind_of(case, name):
    """which of the three test certificates goes into a certificate file of this name"""
    ip = local_ip_text(case)
    if case.port is not None and name == 'servercert.pem.%s:%s' % (ip, case.port):
        return 'ipport'
    if name == 'servercert.pem.' + ip:
        return 'ip'
    return 'general'


def files_control(pki, case):
    c = {'rcpthosts': (smtpworld.LOCAL + '\n').encode(), 'timeoutsmtpd': b'2\n'}
    for name, what in case.files.items():
        cert = pki['cert_' + cert_kind_of(case, name)] if name.startswith('servercert') else b''
        c[name] = {'cert+key': cert + pki['key'], 'cert': cert, 'key': pki['key'], 'wrongkey': pki['otherkey']}[what]
    return c


def _timeouts(sc, case):
    # the server's command time-out must only ever fire where a scenario wants it ('t': the client stays
    # silent after the 220); everywhere else a client thread that is starved by a loaded machine must not
    # be mistaken for a dead peer
    sc.control['timeoutsmtpd'] = b'3\n' if 't' in case.hs else b'60\n'
    return sc


def scenario_for(pki, case):
    return _timeouts(_scenario_for(pki, case), case)


def _scenario_for(pki, case):
    if case.cert == 'files':
        sc = smtpworld.base_scenario(port=case.port or '25', extra_control=files_control(pki, case))
        sc.localip = case.localip or LOCALIP
        if case.port is None:
            sc.env['TCPLOCALPORT'] = None
        sc.qq = ['all all 0'] * 4
        sc.items = list(case.clear)
        return sc
    ctl = control_for(pki, case.cert, case.port)
    if case.tlsclients == 'DIR':
        # control/tlsclients cannot be read (a directory in its place): tls_verify() fails before it asks for a certificate
        ctl['clientca.pem'] = pki['clientca']
        ctl['tlsclients'] = None
    elif case.tlsclients is not None:
        ctl['clientca.pem'] = pki['clientca']
        ctl['tlsclients'] = ''.join(x + '\n' for x in case.tlsclients).encode()
    sc = smtpworld.base_scenario(port=case.port, extra_control=ctl)
    sc.localip = LOCALIP
    sc.qq = ['all all 0'] * 4
    sc.items = list(case.clear)
    return sc


# ------------------------------------------------------------------------------------------------
# model request

VERDICTS = {raw: tok for raw, tok in smtpworld.VOCAB.values() if tok != '-'}


def verdict_table(case):
    seen = {}
    for its in (case.clear, case.tls):
        data = b''.join(it[1] for it in its if it[0] == 'S')
        for ln in data.split(b'\r\n'):
            if ln in VERDICTS and ln not in seen and not VERDICTS[ln].startswith('T;'):
                seen[ln] = VERDICTS[ln]
    return ','.join('%s=%s' % (k.hex() if k else '_', v) for k, v in seen.items()) or '-'


def wire_tok(items):
    return ','.join('W' if it[0] == 'W' else (it[1].hex() or '_') for it in items) or '-'


def hs_tok(case):
    def one(h):
        if h.startswith('g'):
            return 'f%d' % (int(h[1:]) if len(h) > 1 else case.eat)
        return {'o': 'o', 'c': 'f0', 't': 't0', 'a': 'f0'}[h]
    return ','.join(one(h) for h in case.hs) or '-'


def cert_names(case):
    """the three names find_servercert() tries, in its order (relative to control/)"""
    ip = local_ip_text(case)
    names = []
    if case.port is not None:
        names.append('servercert.pem.%s:%s' % (ip, case.port))
    names += ['servercert.pem.' + ip, 'servercert.pem']
    return names


def files_verdict(case):
    """specification level: (certificate usable, certificate found, chosen certificate file)"""
    if case.port == '465':
        # smtp_ehlo() does not look for a certificate on the smtps port: tls_init() uses the plain name, key inside
        return ('u' if case.files.get('servercert.pem') == 'cert+key' else 'x'), 0, 'servercert.pem'
    for n in cert_names(case):
        if n in case.files:
            key = 'serverkey.pem' + n[len('servercert.pem'):]
            if key in case.files:
                usable = case.files[key] == 'key' and case.files[n] in ('cert', 'cert+key')
            else:
                usable = case.files[n] == 'cert+key'
            return ('u' if usable else 'x'), 1, n
    return 'x', 0, None


def servercert_line(case, n):
    ip = local_ip_text(case).encode()
    return 'servercert %s %s %d %s' % (ip.hex(), case.port.encode().hex() if case.port is not None else '-', n,
                                       ','.join(k.encode().hex() for k in case.files) or '-')


def model_line(case):
    if case.cert == 'files':
        certv, found, _ = files_verdict(case)
        cfg = '%s;cert=%s;found=%d;p465=%d' % (smtpworld.env_token(port=case.port or '25'), certv, found, 1 if case.port == '465' else 0)
        return 'stls %s %s %s %s %s' % (cfg, hs_tok(case), wire_tok(case.clear), wire_tok(case.tls), verdict_table(case))
    certv, found = CERT_KINDS[case.cert]
    cfg = '%s;cert=%s;found=%d;p465=%d' % (smtpworld.env_token(port=case.port), certv, found, 1 if case.port == '465' else 0)
    return 'stls %s %s %s %s %s' % (cfg, hs_tok(case), wire_tok(case.clear), wire_tok(case.tls), verdict_table(case))


def parse_model(out):
    """-> list of events {chan, input, codes, handoff, offer, st{...}}"""
    evs = []
    for tok in out.split():
        f = tok.split('/')
        if len(f) != 6:
            return None
        s = f[5].split('.')
        if len(s) != 14:
            return None
        st = dict(zip(['comstate', 'goodrcpt', 'rcptcount', 'relayclient', 'esmtp', 'authname', 'mailfrom', 'ssl', 'closed', 'dead', 'wq', 'innlen', 'cc', 'ct'], s))
        evs.append({'chan': f[0], 'input': f[1], 'codes': [] if f[2] == '-' else f[2].split('+'), 'handoff': f[3], 'offer': f[4], 'st': st})
    return evs


def model_exit(evs):
    st = evs[-1]['st']
    if st['dead'] != '-':
        return int(st['dead'])
    return 0 if st['closed'] == '1' else None


# ------------------------------------------------------------------------------------------------
# replies

class ReplyParser:
    def __init__(self):
        self.buf = b''
        self.cur = []
        self.alerts = []

    def feed(self, data):
        """-> list of complete replies (code, offers STARTTLS); TLS alert records that OpenSSL writes in
        clear when a handshake fails are taken out and noted"""
        self.buf += data
        out = []
        while True:
            if not self.cur and self.buf[:2] == b'\x15\x03' and len(self.buf) >= 7 and self.buf[3:5] == b'\x00\x02':
                self.alerts.append(self.buf[5:7]); self.buf = self.buf[7:]
                continue
            break
        while b'\r\n' in self.buf:
            ln, self.buf = self.buf.split(b'\r\n', 1)
            self.cur.append(ln)
            if len(ln) < 4 or ln[3:4] != b'-':
                out.append((ln[:3].decode('latin1'), any(x[4:].upper() == b'STARTTLS' for x in self.cur)))
                self.cur = []
        return out


def lines_of(seg):
    """the complete lines of a segment (observation stream); a tail without CRLF is given as it is"""
    parts = seg.split(b'\r\n')
    if parts and parts[-1] == b'':
        parts.pop()
    return parts


def t_obs(t):
    """state probe of the transcript -> observation token"""
    return 'T/%s/%s/%d/%s/%s' % (t[7], t[0], 0 if t[6] == '-' else 1, t[2], t[1])


def header_obs(case):
    if case.cert == 'files':
        certv, found, _ = files_verdict(case)
        return 'H/%d/%d/%d' % (1 if certv == 'u' else 0, found, 1 if case.port == '465' else 0)
    certv, found = CERT_KINDS[case.cert]
    return 'H/%d/%d/%d' % (1 if certv == 'u' else 0, found, 1 if case.port == '465' else 0)


# ------------------------------------------------------------------------------------------------
# scripted mode

def observe_script(case, result):
    """-> dict(replies=[(chan, code, offer)], groups=[{code, offer, states[], consumed}], obs=[tokens], exit, handoffs)"""
    rp = ReplyParser()
    groups = []
    consumed = 0
    obs = [header_obs(case)]
    # the client's lines, in script order (the scripted client does not look at replies)
    sent = []
    if case.clean:
        for it in case.clear:
            if it[0] == 'S':
                sent.extend(lines_of(it[1]))
    for kind, val in result.events:
        if kind == 'R':
            consumed += len(val)
        elif kind == 'W':
            for code, offer in rp.feed(val):
                groups.append({'code': code, 'offer': offer, 'states': [], 'consumed': None})
        elif kind == 'T':
            if groups:
                groups[-1]['states'].append(val)
                if groups[-1]['consumed'] is None:
                    groups[-1]['consumed'] = consumed      # when the server first blocked after this reply
    # observation stream: the scripted client does not look at replies; a line counts as sent
    # right before the reply it can have caused (message lines: all of them behind the 354)
    early = bool(case.clear) and case.clear[0][0] == 'S'
    si, in_data = 0, False
    for k, g in enumerate(groups):
        if k > 0 or early:
            if in_data:
                while si < len(sent):
                    ln = sent[si]; si += 1
                    obs.append('S/c/%s' % (ln.hex() or '_'))
                    if ln == b'.':
                        break
                in_data = False
            elif si < len(sent):
                obs.append('S/c/%s' % (sent[si].hex() or '_')); si += 1
        obs.append('R/c/%s/%d' % (g['code'], 1 if g['offer'] else 0))
        if g['code'] == '354':
            in_data = True
        if g['code'] == '220' and k > 0:
            obs.append('K/0')          # no TLS peer in this mode: every handshake fails
        for t in g['states']:
            obs.append(t_obs(t))
    for _, env in result.handoffs:
        obs.append('Q/%s' % env.hex())
    if result.fault:
        obs.append('F')
    return {'groups': groups, 'obs': obs, 'exit': result.exit, 'handoffs': [e.hex() for _, e in result.handoffs], 'fault': result.fault}


# ------------------------------------------------------------------------------------------------
# real-I/O mode: framed socketpair + TLS client

def frame(b):
    return struct.pack('>I', len(b)) + b


class TlsClient:
    """the peer of one session; records what it sends and receives in order"""

    def __init__(self, sock, pki, case, sessdir):
        self.s, self.pki, self.case, self.dir = sock, pki, case, sessdir
        self.rp = ReplyParser()
        self.obs = []
        self.replies = []          # (chan, code, offer)
        self.tls = None
        self.inb = self.outb = None
        self.eof = False
        self.hs = list(case.hs)
        self.last_line = b''
        self.stls_sent = False     # a STARTTLS line went out in clear and no handshake was tried since
        self.peer_cn = None
        self.outq = []
        self.nq = 0
        self.unsolicited = 0

    # --- transport
    def _recv(self, timeout):
        self._flush()
        if self.eof:
            return b''
        r, _, _ = select.select([self.s], [], [], timeout)
        if not r:
            return None
        try:
            d = self.s.recv(65536)
        except (ConnectionResetError, BrokenPipeError):
            d = b''
        if not d:
            self.eof = True
        return d

    def _send(self, b):
        """queue a frame; frames go out together at the next flush (one send() for everything the
        scenario sends without waiting, so that the server finds all of it or none of it)"""
        self.outq.append(frame(b))

    def _flush(self):
        if self.outq:
            data, self.outq = b''.join(self.outq), []
            try:
                self.s.sendall(data)
            except (BrokenPipeError, ConnectionResetError):
                self.eof = True

    def _pump(self):
        d = self.outb.read()
        if d:
            self._send(d)

    def _plain(self, timeout):
        """bytes of replies on the current channel, None on time-out, b'' at EOF"""
        if self.tls is None:
            return self._recv(timeout)
        while True:
            try:
                return self.tls.read(65536)
            except ssl.SSLWantReadError:
                self._pump()                       # handshake records of a renegotiation
                d = self._recv(timeout)
                if d is None:
                    return None
                if d == b'':
                    return b''
                self.inb.write(d)
            except (ssl.SSLZeroReturnError, ssl.SSLEOFError):
                return b''
            except ssl.SSLError as e:
                self.obs.append('R/c/000/0')       # bytes that are not TLS records after the handshake
                self.sslerr = repr(e)
                return b''

    def _note(self, got):
        chan = 't' if self.tls is not None else 'c'
        for code, offer in got:
            self.replies.append((chan, code, offer))
            self.obs.append('R/%s/%s/%d' % (chan, code, 1 if offer else 0))
            self._queue_check(code)

    def _queue_check(self, code):
        # a hand-off shows up as a new qq.N.env file by the time the 250 for the message arrives
        while os.path.exists(os.path.join(self.dir, 'qq.%d.env' % self.nq)):
            p = os.path.join(self.dir, 'qq.%d.env' % self.nq)
            self.obs.append('Q/%s' % open(p, 'rb').read().hex())
            self.nq += 1

    def wait_reply(self, timeout=30.0):
        """at least one complete reply (then whatever follows at once)"""
        got = []
        end = time.time() + timeout
        while not got:
            d = self._plain(max(0.0, end - time.time()))
            if d is None or d == b'':
                break
            got = self.rp.feed(d)
        if got:
            while True:
                d = self._plain(0.01)
                if not d:
                    break
                got += self.rp.feed(d)
        self._note(got)
        return got

    def send(self, b):
        chan = 't' if self.tls is not None else 'c'
        for ln in lines_of(b):
            self.obs.append('S/%s/%s' % (chan, ln.hex() or '_'))
            self.last_line = ln
            if chan == 'c' and ln.upper().startswith(b'STARTTLS'):
                self.stls_sent = True
        if self.tls is None:
            self._send(b)
        else:
            self.tls.write(b)
            self._pump()

    def handshake(self):
        cctx = ssl.SSLContext(ssl.PROTOCOL_TLS_CLIENT)
        cctx.load_verify_locations(self.pki['ca'])
        cctx.check_hostname = False
        if self.case.ccert:
            # the server asks for the certificate in a renegotiation (TLS 1.2; with TLS 1.3 it would be
            # post-handshake authentication)
            cctx.load_cert_chain(os.path.join(self.pki['dir'], self.case.ccert + '.crt'), os.path.join(self.pki['dir'], 'client.key'))
            cctx.maximum_version = ssl.TLSVersion.TLSv1_2
            cctx.options &= ~ssl.OP_NO_RENEGOTIATION      # Python switches server-initiated renegotiation off by default
        self.inb, self.outb = ssl.MemoryBIO(), ssl.MemoryBIO()
        so = cctx.wrap_bio(self.inb, self.outb)
        ok = False
        while True:
            try:
                so.do_handshake()
                self._pump()
                ok = True
                break
            except ssl.SSLWantReadError:
                self._pump()
                d = self._recv(30.0)
                if not d:
                    break
                self.inb.write(d)
            except ssl.SSLError:
                break
        self.obs.append('K/%d' % (1 if ok else 0))
        if ok:
            self.tls = so
            try:
                subj = dict(x[0] for x in so.getpeercert().get('subject', ()))
                self.peer_cn = subj.get('commonName')
            except Exception:
                self.peer_cn = None
            # anything the server says now was not asked for inside TLS
            d = self._plain(0.15)
            if d:
                self._note(self.rp.feed(d))
        return ok

    def alert_handshake(self):
        """begin a real handshake and give it up with a warning-level close_notify alert after the server's flight:
        the handshake has failed, the server must say so in clear text and must not regard the session as TLS"""
        cctx = ssl.SSLContext(ssl.PROTOCOL_TLS_CLIENT)
        cctx.check_hostname = False
        cctx.verify_mode = ssl.CERT_NONE
        cctx.maximum_version = ssl.TLSVersion.TLSv1_2
        inb, outb = ssl.MemoryBIO(), ssl.MemoryBIO()
        so = cctx.wrap_bio(inb, outb)
        try:
            so.do_handshake()
        except ssl.SSLWantReadError:
            pass
        except ssl.SSLError:
            pass
        hello = outb.read()
        if hello:
            self._send(hello)
        self._flush()
        d = self._recv(10.0)                       # ServerHello .. ServerHelloDone
        if d:
            time.sleep(0.05)
        self._send(bytes.fromhex('15030300020100'))
        self._flush()
        self.obs.append('K/0')

    def run(self):
        self.obs.append(header_obs(self.case))
        items = list(self.case.clear)
        i = 0
        while i < len(items) and not self.eof:
            it = items[i]; i += 1
            if it[0] == 'S':
                self.send(it[1])
                continue
            got = self.wait_reply()
            if not got:
                break
            if self.tls is None and any(c == '220' for c, _ in got) and self.stls_sent and self.hs:
                # the server said "ready for tls" (to a client that may have pipelined more behind STARTTLS)
                self.stls_sent = False
                h = self.hs.pop(0)
                if h == 'o':
                    if self.handshake():
                        items = list(self.case.tls); i = 0
                        continue
                    break
                self.obs.append('K/0')
                if h == 'c':
                    self._flush()
                    try:
                        self.s.shutdown(socket.SHUT_WR)
                    except OSError:
                        pass
                    break
                if h == 't':
                    break
                if h == 'a':
                    self.obs.pop()                 # alert_handshake() notes K/0 itself
                    self.alert_handshake()
                # 'g': the next clear item goes out in place of the ClientHello
        # the end: say nothing more, collect what the server still sends
        if self.case.hs[-1:] == ['t'] and not self.hs and self.tls is None:
            pass
        else:
            if self.tls is not None and not self.eof:
                try:
                    self.tls.unwrap()              # close_notify
                except ssl.SSLError:
                    pass
                self._pump()
            self._flush()
            try:
                self.s.shutdown(socket.SHUT_WR)
            except OSError:
                pass
        end = time.time() + 30.0
        while not self.eof and time.time() < end:
            d = self._plain(max(0.0, end - time.time()))
            if d is None or d == b'':
                break
            self._note(self.rp.feed(d))
        self._queue_check('')


def run_tls_sessions(ctx, binary, pki, cases, keep=False, workers=None):
    """each case in its own directory and process over a socketpair; -> list of dicts"""
    standins = {'qq_standin': os.path.join(ctx.scratch, 'qq_standin'), 'chkpw_standin': os.path.join(ctx.scratch, 'chkpw_standin')}
    root = os.path.join(ctx.scratch, 'tsess')
    os.makedirs(root, exist_ok=True)
    base = len(os.listdir(root))

    def one(iv):
        i, case = iv
        d = os.path.join(root, 't%06d' % (base + i))
        sc = scenario_for(pki, case)
        sc.items = []
        sc.write(d, standins)
        a, b = socket.socketpair()
        env = dict(vlib.ENV, H_REALIO='2', H_ALARM='90')
        p = subprocess.Popen([binary, d], stdin=b.fileno(), stdout=b.fileno(), stderr=subprocess.PIPE, env=env)
        b.close()
        cl = TlsClient(a, pki, case, d)
        err = None
        try:
            cl.run()
        except Exception as e:       # a client crash is a harness defect, reported as such
            err = 'client: %r' % (e,)
        try:
            a.close()
        except OSError:
            pass
        try:
            stderr = p.communicate(timeout=100)[1].decode(errors='replace')
            rc = p.returncode
        except subprocess.TimeoutExpired:
            p.kill(); stderr, rc = 'timeout', -14
        res = session.Result(d, rc, stderr)
        out = {'replies': cl.replies, 'obs': cl.obs + [t_obs(t) for t in res.states] + (['F'] if res.fault else []), 'states': res.states, 'exit': res.exit, 'peer_cn': cl.peer_cn,
               'handoffs': [e.hex() for _, e in res.handoffs], 'msgs': [m for m, _ in res.handoffs], 'fault': res.fault, 'clienterr': err, 'rc': rc, 'sslerr': getattr(cl, 'sslerr', None)}
        if not keep:
            shutil.rmtree(d, ignore_errors=True)
        return out
    with ThreadPoolExecutor(max_workers=workers or vlib.NCPU) as ex:
        return list(ex.map(one, enumerate(cases)))
