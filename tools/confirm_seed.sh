#!/bin/bash
# confirm_seed.sh <seed-out-dir (with patch.diff, run.sh, meta.json)> <name>
# Confirms in a scratch worktree: patch applies, project builds, pinned test-suite passes,
# demo passes on the clean tree and fails on the mutant. On success stores it as /verif/seeded/<name>/.
set -u
D=$1; NAME=$2
W=$(mktemp -d /tmp/confirm-XXXXXX)
trap 'git -C /repo worktree remove --force "$W/repo" >/dev/null 2>&1; rm -rf "$W"' EXIT
git -C /repo worktree add --detach "$W/repo" HEAD >/dev/null 2>&1 || { echo "worktree failed"; exit 2; }
cd "$W/repo"
echo "[clean demo]"; (cd "$D" && timeout 600 sh ./run.sh "$W/repo" >"$W/demo_clean.log" 2>&1); RC_CLEAN=$?
git apply "$D/patch.diff" || git apply -3 "$D/patch.diff" || { echo "PATCH DOES NOT APPLY to current HEAD"; exit 3; }
git diff > "$W/applied.diff"
echo "[mutant demo]"; (cd "$D" && timeout 600 sh ./run.sh "$W/repo" >"$W/demo_mut.log" 2>&1); RC_MUT=$?
cmake -G Ninja -B "$W/repo/_build" -S "$W/repo" >/dev/null 2>&1 && cmake --build "$W/repo/_build" >/dev/null 2>&1 || { echo "BUILD FAILS"; exit 4; }
QSMTP_SRC="$W/repo" /verif/tools/baseline.sh > "$W/base.log" 2>&1; RC_BASE=$?
tail -3 "$W/base.log"
echo "demo clean rc=$RC_CLEAN mutant rc=$RC_MUT baseline rc=$RC_BASE"
if [ $RC_CLEAN -eq 0 ] && [ $RC_MUT -ne 0 ] && [ $RC_BASE -eq 0 ]; then
  mkdir -p /verif/seeded/$NAME
  cp "$W/applied.diff" /verif/seeded/$NAME/patch.diff
  for f in "$D"/*; do case "$(basename $f)" in patch.diff|meta.json) ;; *) cp -r "$f" /verif/seeded/$NAME/ ;; esac; done
  python3 - "$D/meta.json" /verif/seeded/$NAME/meta.json <<PY
import json,sys
m=json.load(open(sys.argv[1]))
m['confirmed']={'patch_applies_to':'$(git -C /repo rev-parse --short HEAD)','suite':'190/190 stable tests pass with the change (tools/baseline.sh in a scratch worktree)','demo_clean_rc':$RC_CLEAN,'demo_mutant_rc':$RC_MUT}
json.dump(m,open(sys.argv[2],'w'),indent=1)
PY
  echo "CONFIRMED -> /verif/seeded/$NAME"
else
  echo "NOT CONFIRMED"; tail -5 "$W/demo_clean.log" "$W/demo_mut.log"
fi
