"""Real-TLS world for the client side of STARTTLS (property C18).

* a test PKI made with the openssl CLI per run (CA, server certificates that are valid / expired /
  for another name / self-signed / signed by another CA, an RSA client certificate),
* a DNS responder (UDP, A / AAAA / MX / TLSA from a zone table) bound to port 53 of a private
  loopback address; libowfat is pointed at it with DNSCACHEIP,
* scripted SMTP peers on loopback addresses (Python ssl, one thread per listener) which record every
  line they receive together with the channel it came in on (clear text or TLS),
* Qremote itself, built from the working tree with the sanitizers (AUTOQMAIL = /proc/self/cwd), started
  with a scenario directory as its qmail home and reaching the peers through a route with a non-25 port.
"""
import glob, hashlib, os, re, select, shutil, socket, ssl, struct, subprocess, threading, time
from concurrent.futures import ThreadPoolExecutor
import vlib

DOMAIN = 'dom.c18.test'
MX = ['mx1.c18.test', 'mx2.c18.test', 'mx3.c18.test']


# ------------------------------------------------------------------------------------------------
# PKI

def _run(cmd, cwd):
    r = subprocess.run(cmd, cwd=cwd, stdout=subprocess.PIPE, stderr=subprocess.STDOUT, text=True)
    if r.returncode != 0:
        raise RuntimeError('%s failed: %s' % (' '.join(cmd), r.stdout[-500:]))
    return r.stdout


CA_CNF = '''[ca]
default_ca = c
[c]
dir = .
database = ./index.txt
new_certs_dir = ./newcerts
serial = ./serial
default_md = sha256
policy = p
unique_subject = no
copy_extensions = none
[p]
commonName = supplied
[ext_%(n)s]
subjectAltName = DNS:%(n)s
'''


class Pki:
    """files: ca.pem, ca2.pem, client.pem (certificate + RSA key), and per kind <kind>.pem/<kind>.key
    for the name MX[0]: valid, expired, wrongname, selfsigned, otherca; valid2 for MX[1]."""

    def __init__(self, d):
        self.d = d
        os.makedirs(os.path.join(d, 'newcerts'), exist_ok=True)
        open(os.path.join(d, 'index.txt'), 'w').close()
        open(os.path.join(d, 'serial'), 'w').write('1000\n')
        for ca in ('ca', 'ca2'):
            _run(['openssl', 'req', '-x509', '-newkey', 'rsa:2048', '-nodes', '-keyout', ca + '.key', '-out', ca + '.pem',
                  '-subj', '/CN=C18 test %s' % ca, '-days', '30'], d)
        self._leaf('valid', MX[0], 'ca')
        self._leaf('valid2', MX[1], 'ca')
        self._leaf('wrongname', 'other.c18.test', 'ca')
        self._leaf('otherca', MX[0], 'ca2')
        self._leaf('expired', MX[0], 'ca', dates=('200101000000Z', '200201000000Z'))
        _run(['openssl', 'req', '-x509', '-newkey', 'rsa:2048', '-nodes', '-keyout', 'selfsigned.key', '-out', 'selfsigned.pem',
              '-subj', '/CN=' + MX[0], '-addext', 'subjectAltName=DNS:' + MX[0], '-days', '30'], d)
        # client certificate: SSL_CTX_use_RSAPrivateKey_file() wants an RSA key, certificate and key in one file
        _run(['openssl', 'req', '-x509', '-newkey', 'rsa:2048', '-nodes', '-keyout', 'client.key', '-out', 'client.crt',
              '-subj', '/CN=qremote client', '-days', '30'], d)
        open(os.path.join(d, 'client.pem'), 'w').write(open(os.path.join(d, 'client.crt')).read() + open(os.path.join(d, 'client.key')).read())

    def _leaf(self, kind, name, ca, dates=None):
        d = self.d
        _run(['openssl', 'req', '-newkey', 'rsa:2048', '-nodes', '-keyout', kind + '.key', '-out', kind + '.csr', '-subj', '/CN=' + name], d)
        cnf = os.path.join(d, kind + '.cnf')
        open(cnf, 'w').write(CA_CNF % {'n': name})
        cmd = ['openssl', 'ca', '-batch', '-config', cnf, '-cert', ca + '.pem', '-keyfile', ca + '.key', '-in', kind + '.csr',
               '-out', kind + '.pem', '-extensions', 'ext_' + name, '-notext']
        cmd += ['-startdate', dates[0], '-enddate', dates[1]] if dates else ['-days', '30']
        _run(cmd, d)

    def path(self, name):
        return os.path.join(self.d, name)

    def read(self, name):
        return open(self.path(name), 'rb').read()

    def spki_sha256(self, kind):
        """the data of a TLSA 3 1 1 record for the certificate <kind>"""
        der = subprocess.run(['openssl', 'x509', '-in', kind + '.pem', '-noout', '-pubkey'], cwd=self.d, stdout=subprocess.PIPE).stdout
        der = subprocess.run(['openssl', 'pkey', '-pubin', '-outform', 'DER'], cwd=self.d, input=der, stdout=subprocess.PIPE).stdout
        return hashlib.sha256(der).digest()


# ------------------------------------------------------------------------------------------------
# DNS responder

T_A, T_MX, T_AAAA, T_TLSA = 1, 15, 28, 52


def _enc_name(n):
    out = b''
    for lab in n.strip('.').split('.'):
        out += bytes([len(lab)]) + lab.encode()
    return out + b'\0'


class Dns(threading.Thread):
    """zone: {(name lower, qtype): [rdata bytes, ...]} ; a name without any record is NXDOMAIN, a name with
    records of another type gives an empty answer; ('servfail', name lower) in `fail` gives SERVFAIL."""

    def __init__(self, idx=0):
        super().__init__(daemon=True)
        self.zone = {}
        self.fail = set()
        self.queries = []
        self.lock = threading.Lock()
        self.sock = None
        pid = os.getpid() * 8 + idx
        for k in range(0, 2000, 8):
            ip = '127.18.%d.%d' % ((pid + k) >> 8 & 255, (pid + k) & 255 or 1)
            s = socket.socket(socket.AF_INET, socket.SOCK_DGRAM)
            try:
                s.bind((ip, 53))
                self.sock, self.ip = s, ip
                break
            except OSError:
                s.close()
        self.stop = False

    def ok(self):
        return self.sock is not None

    def replace_zone(self, zone):
        with self.lock:
            self.zone = dict(zone)
            self.queries = []

    def run(self):
        while not self.stop:
            r, _, _ = select.select([self.sock], [], [], 0.2)
            if not r:
                continue
            try:
                q, addr = self.sock.recvfrom(4096)
                self.sock.sendto(self.answer(q), addr)
            except OSError:
                pass

    def close(self):
        self.stop = True

    def answer(self, q):
        qid = q[:2]
        pos = 12
        labels = []
        while q[pos]:
            labels.append(q[pos + 1:pos + 1 + q[pos]].decode('latin1'))
            pos += 1 + q[pos]
        pos += 1
        qtype = struct.unpack('>H', q[pos:pos + 2])[0]
        question = q[12:pos + 4]
        name = '.'.join(labels).lower()
        with self.lock:
            self.queries.append((name, qtype))
            if name in self.fail:
                return qid + struct.pack('>HHHHH', 0x8182, 1, 0, 0, 0) + question
            recs = self.zone.get((name, qtype))
            exists = any(k[0] == name for k in self.zone)
        if recs is None:
            return qid + struct.pack('>HHHHH', 0x8180 if exists else 0x8183, 1, 0, 0, 0) + question
        ans = b''
        for rd in recs:
            ans += b'\xc0\x0c' + struct.pack('>HHIH', qtype, 1, 5, len(rd)) + rd
        return qid + struct.pack('>HHHHH', 0x8180, 1, len(recs), 0, 0) + question + ans


def rr_a(ip):
    return socket.inet_aton(ip)


def rr_mx(prio, host):
    return struct.pack('>H', prio) + _enc_name(host)


def rr_tlsa(usage, selector, mtype, data):
    return bytes([usage, selector, mtype]) + data


# ------------------------------------------------------------------------------------------------
# SMTP peers

class Behaviour:
    """what one mail exchanger does.  Everything it receives is recorded in .log as (channel, line) with
    channel 'C' (clear text) or 'T' (inside TLS); events ('H', text) for the handshake, ('X', text)."""

    def __init__(self, **kw):
        self.banner = kw.get('banner', b'220 %s ESMTP\r\n')            # %s = own name
        self.ehlo_clear = kw.get('ehlo_clear', ['STARTTLS', '8BITMIME'])  # None: 502 to EHLO, 250 to HELO
        self.starttls_reply = kw.get('starttls_reply', b'220 2.0.0 go ahead\r\n')
        self.inject = kw.get('inject', b'')              # clear text sent in the same segment as the reply to STARTTLS
        self.inject_later = kw.get('inject_later', b'')  # clear text sent as a separate segment behind it
        self.inject_delay = kw.get('inject_delay', 0.15)
        self.cert = kw.get('cert', 'valid')              # certificate kind; None: no handshake after the reply
        self.handshake = kw.get('handshake', 'tls')      # 'tls' | 'garbage' | 'close' | 'silent'
        self.ehlo_tls = kw.get('ehlo_tls', ['8BITMIME'])  # 'silent': never answer inside TLS
        self.want_client_cert = kw.get('want_client_cert', False)
        self.mail_reply = kw.get('mail_reply', b'250 ok\r\n')
        self.close_after_banner = kw.get('close_after_banner', False)
        self.tls_versions = kw.get('tls_versions', None)
        self.log = []
        self.client_cert = None


class Peer(threading.Thread):
    def __init__(self, ip, port, name, beh, pki):
        super().__init__(daemon=True)
        self.ip, self.name, self.beh, self.pki = ip, name, beh, pki
        self.lsock = socket.socket(socket.AF_INET, socket.SOCK_STREAM)
        self.lsock.setsockopt(socket.SOL_SOCKET, socket.SO_REUSEADDR, 1)
        self.lsock.bind((ip, port))
        self.port = self.lsock.getsockname()[1]
        self.lsock.listen(4)
        self.stop = False
        self.conns = 0

    def run(self):
        self.lsock.settimeout(0.2)
        while not self.stop:
            try:
                c, _ = self.lsock.accept()
            except socket.timeout:
                continue
            except OSError:
                break
            self.conns += 1
            try:
                self.serve(c)
            except Exception as e:      # the peer never decides a verdict; note what happened
                self.beh.log.append(('X', 'peer: %r' % (e,)))
            try:
                c.close()
            except OSError:
                pass

    def close(self):
        self.stop = True
        try:
            self.lsock.close()
        except OSError:
            pass

    def serve(self, c):
        b = self.beh
        log = b.log
        c.settimeout(6)
        c.setsockopt(socket.IPPROTO_TCP, socket.TCP_NODELAY, 1)
        chan = 'C'
        buf = b''

        def readline():
            nonlocal buf
            while b'\n' not in buf:
                try:
                    d = c.recv(4096)
                except (socket.timeout, ssl.SSLError, OSError) as e:
                    log.append(('X', 'recv: %s' % type(e).__name__))
                    return None
                if not d:
                    log.append(('X', 'eof'))
                    return None
                buf += d
            line, buf = buf.split(b'\n', 1)
            line = line.rstrip(b'\r')
            log.append((chan, line))
            return line

        def ehlo_reply(exts):
            lines = [self.name.encode()] + [e.encode() if isinstance(e, str) else e for e in exts]
            return b''.join(b'250' + (b' ' if i == len(lines) - 1 else b'-') + l + b'\r\n' for i, l in enumerate(lines))

        c.sendall(b.banner % self.name.encode() if b'%s' in b.banner else b.banner)
        if b.close_after_banner:
            return
        in_data = False
        while True:
            line = readline()
            if line is None:
                return
            if in_data:
                if line == b'.':
                    in_data = False
                    c.sendall(b'250 queued\r\n')
                continue
            if chan == 'T' and b.ehlo_tls == 'silent':
                continue
            verb = line.split(b' ')[0].upper()
            if verb == b'EHLO':
                exts = b.ehlo_clear if chan == 'C' else b.ehlo_tls
                c.sendall(b'502 unknown\r\n' if exts is None else ehlo_reply(exts))
            elif verb == b'HELO':
                c.sendall(b'250 ' + self.name.encode() + b'\r\n')
            elif verb == b'STARTTLS' and chan == 'C':
                c.sendall(b.starttls_reply + b.inject)
                if b.inject_later:
                    time.sleep(b.inject_delay)
                    c.sendall(b.inject_later)
                if b.cert is None:
                    continue
                if b.handshake == 'close':
                    return
                if b.handshake == 'garbage':
                    # answer the ClientHello with clear text, then stay until the client says QUIT (or leaves)
                    try:
                        hello = c.recv(4096)
                    except (socket.timeout, OSError):
                        hello = b''
                    log.append(('X', 'client hello %d bytes' % len(hello)))
                    c.sendall(b'this is not a TLS record\r\n')
                    while True:
                        line = readline()
                        if line is None:
                            return
                        if line.upper().endswith(b'QUIT'):
                            c.sendall(b'221 bye\r\n')
                            return
                if b.handshake == 'silent':
                    readline()
                    return
                ctx = ssl.SSLContext(ssl.PROTOCOL_TLS_SERVER)
                ctx.load_cert_chain(self.pki.path(b.cert + '.pem'), self.pki.path(b.cert + '.key'))
                if b.tls_versions == '1.2':
                    ctx.maximum_version = ssl.TLSVersion.TLSv1_2
                if b.want_client_cert:
                    ctx.verify_mode = ssl.CERT_OPTIONAL
                    ctx.load_verify_locations(self.pki.path('client.crt'))
                try:
                    c = ctx.wrap_socket(c, server_side=True)
                except (ssl.SSLError, OSError, socket.timeout) as e:
                    log.append(('H', 'fail %s' % type(e).__name__))
                    return
                log.append(('H', 'ok'))
                b.client_cert = c.getpeercert(binary_form=True)
                chan = 'T'
                buf = b''
            elif verb == b'MAIL':
                c.sendall(b.mail_reply)
            elif verb == b'RCPT':
                c.sendall(b'250 ok\r\n')
            elif verb == b'DATA':
                c.sendall(b'354 go on\r\n')
                in_data = True
            elif verb == b'QUIT':
                c.sendall(b'221 bye\r\n')
                return
            else:
                c.sendall(b'500 what\r\n')


# ------------------------------------------------------------------------------------------------
# Qremote

QREMOTE_SRCS = ['qremote/common_setup.c', 'qremote/envelope.c', 'qremote/greeting.c', 'qremote/qremote.c', 'qremote/client.c',
                'qremote/conn.c', 'qremote/conn_mx.c', 'qremote/mime.c', 'qremote/qrdata.c', 'qremote/reply.c', 'qremote/smtproutes.c',
                'qremote/starttlsr.c', 'qremote/status.c']


def build_qremote(ctx, name='Qremote'):
    """the unmodified sources of the working tree, sanitizers on, qmail home = current directory"""
    inc = vlib.prepare_includes(ctx, autoqmail='/proc/self/cwd')
    os.makedirs(os.path.join(inc, 'qremote'), exist_ok=True)
    tmpl = open(os.path.join(vlib.SRC, 'qremote', 'statuscodes.h.tmpl')).read()
    open(os.path.join(inc, 'qremote', 'statuscodes.h'), 'w').write(re.sub(r'^#cmakedefine (\w+).*$', r'/* #undef \1 */', tmpl, flags=re.M))
    objdir = os.path.join(ctx.scratch, name + '.o')
    os.makedirs(objdir, exist_ok=True)
    srcs = [os.path.join(vlib.SRC, s) for s in QREMOTE_SRCS] + sorted(glob.glob(os.path.join(vlib.SRC, 'lib', '*.c')))
    base = vlib.BASE_FLAGS + ['-I' + inc, '-I' + os.path.join(vlib.SRC, 'include')]

    def cc(f):
        rel = os.path.relpath(f, vlib.SRC)
        o = os.path.join(objdir, rel.replace('/', '_') + '.o')
        extra = ['-DNOSTDERR'] if rel == 'lib/log.c' and '-DUSESYSLOG' in vlib.BASE_FLAGS else []
        r = vlib.sh(['gcc'] + base + extra + ['-c', f, '-o', o])
        return (o, r.returncode, r.stdout)
    with ThreadPoolExecutor(max_workers=8) as ex:
        res = list(ex.map(cc, srcs))
    bad = [(o, out) for o, rc, out in res if rc != 0]
    if bad:
        ctx.unshown.append('Qremote does not build from the working tree: %s' % bad[0][1][-1200:])
        return None
    out = os.path.join(ctx.scratch, name)
    r = vlib.sh(['gcc', '-fsanitize=address,undefined'] + (['--coverage'] if vlib.COV else []) + ['-o', out] + [o for o, _, _ in res] + ['-lssl', '-lcrypto', '-lowfat'])
    if r.returncode != 0:
        ctx.unshown.append('Qremote does not link: %s' % r.stdout[-1500:])
        return None
    return out


class Scenario:
    """one delivery attempt: the route, the DNS zone, the peers.
    route: 'smtproutes' (control/smtproutes with relay host MX[0] and the port) or 'routefile'
    (control/smtproutes.d/<domain> with port [+ clientcert]; the mail exchangers come from DNS)."""

    def __init__(self, name, peers, route='routefile', clientcert=False, pinned=None, tlsa=None, relay=None, expect=None, note='', routefile='exact'):
        self.name, self.peers, self.route, self.clientcert = name, peers, route, clientcert
        self.pinned = pinned or {}      # mx index -> file in the PKI used as control/tlshosts/<fqdn>.pem
        self.tlsa = tlsa or {}          # mx index -> list of (usage, selector, mtype, data | 'spki:<kind>')
        self.relay = relay
        self.expect = expect or {}
        self.note = note
        self.timeoutremote = 3
        self.routefile = routefile      # 'exact': smtproutes.d/<domain>; 'wildcard': smtproutes.d/*.<parent domain>


class Result:
    def __init__(self):
        self.status = b''
        self.rc = None
        self.stderr = ''
        self.logs = []          # per peer: list of (channel, line)
        self.conns = []
        self.fault = None

    def data_sent_to(self, k):
        """channel on which the message was handed to peer k: 'C', 'T' or None"""
        for ch, line in self.logs[k]:
            if ch in 'CT' and line.upper() == b'DATA':
                return ch
        return None

    def lines(self, k, chan):
        return [l for ch, l in self.logs[k] if ch == chan]

    def handshake(self, k):
        hs = [l for ch, l in self.logs[k] if ch == 'H']
        return hs[0] if hs else None

    def summary(self):
        out = []
        for k, lg in enumerate(self.logs):
            out.append('peer%d[%s]' % (k, ' | '.join('%s:%s' % (ch, l.decode('latin1') if isinstance(l, bytes) else l) for ch, l in lg)))
        return 'rc=%s status=%r %s' % (self.rc, self.status, ' '.join(out))


class World:
    """one DNS responder + a sequence of scenarios; several worlds may run side by side (own addresses)"""
    _count = 0
    _lock = threading.Lock()

    def __init__(self, ctx, binary, pki):
        self.ctx, self.binary, self.pki = ctx, binary, pki
        with World._lock:
            World._count += 1
            self.idx = World._count
        self.dns = Dns(self.idx)
        if self.dns.ok():
            self.dns.start()
        self.n = 0

    def close(self):
        self.dns.close()

    def _peers(self, sc):
        """listeners on consecutive loopback addresses sharing one port number"""
        base = '127.%d.%d.' % (19 + self.idx % 100, self.n & 255)
        for attempt in range(30):
            peers, port = [], 0
            try:
                for k, beh in enumerate(sc.peers):
                    p = Peer(base + str(k + 1), port, MX[k], beh, self.pki)
                    port = p.port
                    peers.append(p)
                return peers, port
            except OSError:
                for q in peers:
                    q.close()
        return None, 0

    def run(self, sc, timeout=25):
        self.n += 1
        res = Result()
        d = os.path.join(self.ctx.scratch, 'tls-%d-%d' % (self.idx, self.n))
        os.makedirs(os.path.join(d, 'control', 'tlshosts'))
        dom = DOMAIN
        peers, port = self._peers(sc)
        if peers is None:
            res.fault = 'cannot bind peers'
            return res
        for b in sc.peers:
            b.log = []
        for p in peers:
            p.start()
        fq = MX[:len(peers)]
        zone = {}
        for k, p in enumerate(peers):
            zone[(fq[k], T_A)] = [rr_a(p.ip)]
        zone[(dom, T_MX)] = [rr_mx(10 * (k + 1), fq[k]) for k in range(len(peers))]
        if sc.relay and sc.relay not in fq:
            zone[(sc.relay, T_A)] = [rr_a(peers[0].ip)]          # a relay with a name of its own is the first peer
        for k, recs in sc.tlsa.items():
            rd = []
            for (u, s_, m, data) in recs:
                if isinstance(data, str) and data.startswith('spki:'):
                    data = self.pki.spki_sha256(data[5:])
                rd.append(rr_tlsa(u, s_, m, data))
            zone[('_%d._tcp.%s' % (port, fq[k]), T_TLSA)] = rd
        self.dns.replace_zone(zone)
        ctl = os.path.join(d, 'control')
        open(os.path.join(ctl, 'me'), 'w').write('client.c18.test\n')
        open(os.path.join(ctl, 'timeoutremote'), 'w').write('%d\n' % sc.timeoutremote)
        if sc.clientcert:
            shutil.copy(self.pki.path('client.pem'), os.path.join(ctl, 'routeclient.pem'))
        if sc.route == 'smtproutes':
            open(os.path.join(ctl, 'smtproutes'), 'w').write('%s:%s:%d\n' % (dom, sc.relay or fq[0], port))
        else:
            os.makedirs(os.path.join(ctl, 'smtproutes.d'))
            lines = ['port=%d' % port]
            if sc.relay:
                lines.append('relay=' + sc.relay)
            if sc.clientcert:
                lines.append('clientcert=control/routeclient.pem')
            fn = dom if sc.routefile == 'exact' else '*' + dom[dom.index('.'):]
            open(os.path.join(ctl, 'smtproutes.d', fn), 'w').write('\n'.join(lines) + '\n')
        for k, f in sc.pinned.items():
            shutil.copy(self.pki.path(f), os.path.join(ctl, 'tlshosts', (sc.relay if k == 0 and sc.relay and sc.relay not in fq else fq[k]) + '.pem'))
        msg = os.path.join(d, 'msg')
        open(msg, 'wb').write(b'Subject: c18\r\n\r\nsecret body\r\n')
        env = dict(vlib.ENV, DNSCACHEIP=self.dns.ip)
        try:
            with open(msg, 'rb') as f0:
                p = subprocess.run([self.binary, dom, 'sender@client.c18.test', 'rcpt@' + dom], cwd=d, stdin=f0, stdout=subprocess.PIPE,
                                   stderr=subprocess.PIPE, env=env, timeout=timeout)
            res.status, res.rc, res.stderr = p.stdout, p.returncode, p.stderr.decode('latin1')[-2000:]
            if p.returncode != 0:
                m = re.search(r'ERROR: AddressSanitizer: (\S+)|runtime error: ([^\n]*)', res.stderr)
                res.fault = m.group(0)[:120] if m else 'exit %d' % p.returncode
        except subprocess.TimeoutExpired:
            res.fault = 'HANG'
        time.sleep(0.05)
        for p in peers:
            p.close()
        for p in peers:
            p.join(timeout=8)
        res.logs = [list(p.beh.log) for p in peers]
        res.conns = [p.conns for p in peers]
        res.client_certs = [p.beh.client_cert for p in peers]
        res.names, res.port, res.dir = fq, port, d
        res.queries = list(self.dns.queries)
        return res
