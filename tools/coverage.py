#!/usr/bin/env python3
"""Diagnostic (not a check): which lines of the modelled sources did the generated cases reach?
usage: VERIF_COV=/some/dir ./check Cxx ...   then   tools/coverage.py /some/dir [file-substring ...]
Aggregates the gcov counters of all harnesses of all properties found under the directory and lists,
per source file of the working tree, the executable lines no case executed."""
import json, os, subprocess, sys, tempfile, shutil, gzip, collections

def main():
    root = sys.argv[1]
    filt = sys.argv[2:]
    src = os.environ.get('QSMTP_SRC', '/repo')
    hits = collections.defaultdict(dict)        # file -> line -> count
    funcs = collections.defaultdict(dict)
    for prop in sorted(os.listdir(root)):
        d = os.path.join(root, prop)
        if not os.path.isdir(d):
            continue
        tmp = tempfile.mkdtemp(prefix='cov-')
        try:
            for f in os.listdir(d):
                shutil.copy(os.path.join(d, f), os.path.join(tmp, f))
            for f in sorted(os.listdir(tmp)):
                if not f.endswith('.gcda'):
                    continue
                r = subprocess.run(['gcov', '--json-format', '--stdout', f], cwd=tmp, stdout=subprocess.PIPE, stderr=subprocess.DEVNULL)
                for chunk in r.stdout.decode(errors='replace').split('\n'):
                    chunk = chunk.strip()
                    if not chunk.startswith('{'):
                        continue
                    try:
                        j = json.loads(chunk)
                    except ValueError:
                        continue
                    for fl in j.get('files', []):
                        name = fl['file']
                        if not name.startswith(src + '/'):
                            continue
                        rel = name[len(src) + 1:]
                        for ln in fl['lines']:
                            hits[rel][ln['line_number']] = hits[rel].get(ln['line_number'], 0) + ln['count']
                        for fn in fl.get('functions', []):
                            funcs[rel][fn['name']] = (fn['start_line'], fn['end_line'], funcs[rel].get(fn['name'], (0, 0, 0))[2] + fn['execution_count'])
        finally:
            shutil.rmtree(tmp, ignore_errors=True)
    tot = cov = 0
    for rel in sorted(hits):
        if filt and not any(x in rel for x in filt):
            continue
        lines = hits[rel]
        n, c = len(lines), sum(1 for v in lines.values() if v)
        tot += n; cov += c
        print('== %s: %d/%d lines executed' % (rel, c, n))
        text = open(os.path.join(src, rel), errors='replace').read().split('\n')
        for fn, (a, b, cnt) in sorted(funcs[rel].items(), key=lambda x: x[1][0]):
            miss = [l for l in range(a, b + 1) if l in lines and not lines[l]]
            if cnt == 0:
                print('   %s (%d-%d): never called' % (fn, a, b))
            elif miss:
                print('   %s (%d-%d): %d calls, lines not reached:' % (fn, a, b, cnt))
                for l in miss:
                    print('      %5d: %s' % (l, text[l - 1].strip()[:110]))
    print('total: %d/%d' % (cov, tot))

main()
