"""Shared by C02 and C03: DATA transactions against the whole-server harness (harness/h_qsmtpd.c,
queue-side oracle trace + snapshot) and the Lean models `Data` / `Queue` (driver ops `data`,
`chk_handoff`).  A *window* is everything between the read of a `DATA` command line and the next
one: snapshot (D), syscall oracle (Q), read sizes (R), replies (W), states (T)."""
import errno, os, re
import vlib, session, smtpworld as W

ENAMES = {getattr(errno, n): n for n in ('EPIPE', 'ENOSPC', 'EFBIG', 'ENOMEM', 'EMSGSIZE', 'E2BIG', 'EINVAL', 'EBADF', 'EIO',
                                         'EAGAIN', 'EINTR', 'ECHILD', 'EFAULT', 'ECONNRESET', 'EMFILE')}
DATE_RE = re.compile(rb'^(Mon|Tue|Wed|Thu|Fri|Sat|Sun), \d\d (Jan|Feb|Mar|Apr|May|Jun|Jul|Aug|Sep|Oct|Nov|Dec) \d{4} \d\d:\d\d:\d\d [+-]\d{4}$')
MSGID_RE = re.compile(rb'^\d{1,20}\.\d{1,6}$')
PIPEBUF = 65536


def ename(n):
    n = int(n)
    return '0' if n == 0 else ENAMES.get(n, 'E%d' % n)


def hx(b):
    return b.hex() if b else '-'


class Tx:
    """one mail transaction of a scenario, as the client sends it"""

    def __init__(self, mail, rcpts, payload, cuts=None, greet=None):
        self.greet = greet                # optional (E)HLO line in front
        self.mail = mail                  # raw MAIL FROM line (no CRLF)
        self.rcpts = list(rcpts)          # raw RCPT TO lines
        self.payload = payload            # bytes sent after 354 (should end in CRLF.CRLF)
        self.cuts = cuts                  # list of chunk sizes for the payload (None: one piece)


def chunk(payload, cuts):
    if not cuts:
        return [payload] if payload else []
    out, p = [], 0
    for c in cuts:
        if p >= len(payload):
            break
        out.append(payload[p:p + max(1, c)]); p += max(1, c)
    if p < len(payload):
        out.append(payload[p:])
    return out


def build_items(pre, txs, post=(b'QUIT',)):
    """lock-step script. Returns (items, plan): plan = list of ('cmd', raw) / ('payload', bytes, txindex)"""
    items, plan = [('W',)], []
    for raw in pre:
        items += [('S', raw + b'\r\n'), ('W',)]; plan.append(('cmd', raw))
    for k, tx in enumerate(txs):
        seq = ([tx.greet] if tx.greet else []) + [tx.mail] + tx.rcpts + [b'DATA']
        for raw in seq:
            items += [('S', raw + b'\r\n'), ('W',)]; plan.append(('cmd', raw))
        if tx.payload is not None:
            for piece in chunk(tx.payload, tx.cuts):
                items.append(('S', piece))
            items.append(('W',))
            plan.append(('payload', tx.payload, k))
    for raw in post:
        items += [('S', raw + b'\r\n'), ('W',)]; plan.append(('cmd', raw))
    return items, plan


class Window:
    def __init__(self):
        self.snap = None          # dict of the D line
        self.q = []               # driver tokens of the syscall oracle
        self.qraw = []
        self.reads = []           # sizes of the read() results behind the DATA line
        self.events = []          # ('R', n) / ('W', bytes) / ('T', fields) behind the DATA line
        self.state_before = None
        self.forks = 0
        self.wlens = []           # lengths of the write()/writev() calls on the pipes


def parse_windows(result_dir):
    """windows of a transcript (one per DATA command line read), plus the raw lines"""
    wins, cur, last_t = [], None, None
    tp = os.path.join(result_dir, 'transcript')
    if not os.path.exists(tp):
        return wins
    for line in open(tp, errors='replace'):
        line = line.rstrip('\n')
        tag, rest = line[:1], line[2:]
        if tag == 'R':
            b = vlib.unhex(rest)
            if b.upper() == b'DATA\r\n':
                cur = Window(); cur.state_before = last_t; wins.append(cur)
                continue
            if cur is not None:
                cur.reads.append(len(b)); cur.events.append(('R', len(b)))
        elif cur is None:
            if tag == 'T':
                last_t = rest.split()
            continue
        elif tag == 'W':
            cur.events.append(('W', vlib.unhex(rest)))
        elif tag == 'T':
            last_t = rest.split(); cur.events.append(('T', last_t))
        elif tag == 'D':
            cur.snap = dict(kv.split('=', 1) for kv in rest.split())
        elif tag == 'Q':
            f = rest.split()
            cur.qraw.append(rest)
            if f[0] == 'pipe':
                cur.q.append('p:%d' % (1 if f[1] == '0' else 0))
            elif f[0] == 'fork':
                cur.q.append('f:%d' % (1 if f[1] == '1' else 0)); cur.forks += f[1] == '1'
            elif f[0] == 'waitpid':
                opts, r, e, st = int(f[1]), int(f[2]), f[3], int(f[4])
                if opts != 0:
                    cur.q.append('b:%d' % r)
                elif r < 0:
                    cur.q.append('x:f:%s' % ename(e))
                elif st < 0:
                    cur.q.append('x:e:0')        # status not asked for (queue_reset)
                elif os.WIFEXITED(st):
                    cur.q.append('x:e:%d' % os.WEXITSTATUS(st))
                else:
                    cur.q.append('x:s:%d' % (os.WTERMSIG(st) if os.WIFSIGNALED(st) else 0))
            elif f[0] in ('write', 'writev'):
                cur.q.append('w:%s:%s' % (f[3], ename(f[4]))); cur.wlens.append(int(f[2]))
            elif f[0] == 'close':
                cur.q.append('c:%d:%s' % (1 if f[2] == '0' else 0, ename(f[3])))
    return wins


def reply_codes(buf):
    out = []
    for ln in buf.split(b'\r\n')[:-1]:
        if len(ln) < 4 or ln[3:4] != b'-':
            out.append(ln[:3].decode('latin1'))
    return out


def split_window(win, paylen):
    """(data-phase codes, state after the data phase, follow-up codes)"""
    pos, data_codes, follow, state, buf = 0, [], [], None, b''
    for kind, val in win.events:
        if kind == 'R':
            pos += val
        elif kind == 'W':
            (data_codes if pos <= paylen else follow).extend(reply_codes(val))
        elif kind == 'T' and pos <= paylen and (pos == paylen or paylen == 0):
            state = val
    return data_codes, state, follow


def oracle_strings(snap, msg):
    """date and message-id digits as the implementation produced them (validated shape), or None"""
    date = msgid = None
    m = re.search(rb'>; (.{31})', msg, re.S)
    if m and DATE_RE.match(m.group(1)):
        date = m.group(1)
    if snap:
        host = vlib.unhex(snap.get('msgidhost', '-'))
        m = re.search(rb'\nMessage-Id: <([0-9.]+)@' + re.escape(host) + rb'>\n', msg)
        if m and MSGID_RE.match(m.group(1)):
            msgid = m.group(1)
    return date, msgid


def model_line(win, stream, date=None, msgid=None, comstate='40'):
    """driver request `data ...` for a window; the snapshot gives the configuration. Without a
    snapshot (no 354) only goodrcpt matters: taken from the state before."""
    if win.snap:
        kv = ['%s=%s' % (k, v) for k, v in win.snap.items() if k not in ('fdd', 'fdh')]
    else:
        sb = win.state_before or ['40', '0', '0', '0', '0', '-', '-']
        kv = ['goodrcpt=%s' % sb[1], 'esmtp=%s' % sb[4], 'mailfrom=%s' % sb[6]]
        n = int(sb[2])
        kv.append('rcpts=' + (','.join(['78:1'] * n) if n else '-'))
        comstate = sb[0]
    if win.state_before:
        comstate = win.state_before[0]
    kv.append('date=%s' % hx(date or b''))
    kv.append('msgid=%s' % hx(msgid or b''))
    cuts = ','.join(str(x) for x in win.reads) if win.reads else '-'
    return 'data %s | %s %s %s | %s' % (' '.join(kv), comstate.zfill(2 * ((len(comstate) + 1) // 2)), hx(stream), cuts, ' '.join(win.q))


FIELDS = ['codes', 'rc', 'freed', 'accepted', 'died', 'desync', 'traceleft', 'openfds', 'errno', 'logsize', 'msg', 'env',
          'comstate', 'goodrcpt', 'rcptcount', 'mailfrom', 'wlens', 'nrest']


def parse_model(out):
    t = out.split(' ')
    f = t[0].split('/')
    if len(f) != len(FIELDS):
        return None
    d = dict(zip(FIELDS, f))
    d['rest'] = [x for x in t[1:] if x]
    d['codes'] = [] if d['codes'] == '-' else d['codes'].split('+')
    return d


def open_fds_impl(win):
    """pipe descriptors of the window that were never closed"""
    n = 0
    for r in win.qraw:
        f = r.split()
        if f[0] == 'pipe' and f[1] == '0':
            n += 2
        elif f[0] == 'close' and not (f[2] == '-1' and f[3] == str(errno.EBADF)):
            n -= 1
    return n


def compare_window(win, m, paylen, handoff, follow_expected_rest, reads_all):
    """None or a description of the first difference between implementation and model"""
    if m is None:
        return 'model gave no answer'
    if m['desync'] != '0':
        return 'syscall sequence differs: the model asked for another call than the oracle has (trace %s)' % ' '.join(win.q)[:300]
    if m['traceleft'] != '0':
        return 'syscall sequence differs: %s oracle entries were never asked for by the model (trace %s)' % (m['traceleft'], ' '.join(win.q)[:300])
    if '354' not in m['codes']:
        paylen = 0          # no 354: whatever the client sends next is read by the command loop
    codes, state, follow = split_window(win, paylen)
    if m['died'] == '1':
        return None if not follow else 'model: process ends inside DATA; implementation went on'
    if codes != m['codes']:
        return 'replies impl=%s model=%s' % (codes, m['codes'])
    if state is not None:
        got = {'comstate': state[0], 'goodrcpt': state[1], 'rcptcount': state[2], 'mailfrom': state[6]}
        for k, v in got.items():
            if m[k] != v:
                return 'state %s impl=%s model=%s' % (k, v, m[k])
    mw = [] if m['wlens'] == '-' else [int(x) for x in m['wlens'].split(',')]
    if mw != win.wlens:
        return 'lengths of the writes to qmail-queue impl=%s model=%s' % (win.wlens[:40], mw[:40])
    if str(open_fds_impl(win)) != m['openfds']:
        return 'open pipe descriptors impl=%d model=%s' % (open_fds_impl(win), m['openfds'])
    mm, me = vlib.unhex(m['msg']), vlib.unhex(m['env'])
    if handoff is not None:
        hm, he = handoff
        if reads_all:
            if hm != mm:
                return 'message bytes impl=%r.. model=%r.. (lengths %d/%d)' % (hm[:60], mm[:60], len(hm), len(mm))
            if he != me:
                return 'envelope bytes impl=%r model=%r' % (he, me)
        else:
            # the date is only known when the child read that far
            k = mm.find(b'>; ')
            if not DATE_RE.match(hm[k + 3:k + 34]) and k >= 0:
                hm, mm = hm[:k + 3], mm[:max(k + 3, 0)] if len(hm) >= k + 3 else mm
            if not mm.startswith(hm) or not me.startswith(he):
                return 'what the child read is not a prefix of what the model says was written'
    if follow_expected_rest is not None and '354' in m['codes'] and m['rest'] != follow_expected_rest:
        return 'reader results left for the command loop: model=%s expected=%s' % (m['rest'][:6], follow_expected_rest[:6])
    return None


# ------------------------------------------------------------------------------------------------
# scenario specifications (JSON-serialisable, so that a failing case can be replayed)

SPF_TXT = {
    'none': None,
    'pass': b'v=spf1 ip4:192.0.2.24 -all',
    'fail': b'v=spf1 -all',
    'softfail': b'v=spf1 ~all',
    'neutral': b'v=spf1 ?all',
    'permerror': b'v=spf1 ip4:999.1.1.1/99 -all',
    'failexp': b'v=spf1 -all exp=exp.remote.example',
    'mech': b'v=spf1 a:client.example -all',
}


def payload_bytes(p):
    """payload spec: {'hex': ..} | {'rep': [linehex, count], 'head': hex, 'tail': hex}"""
    if p is None:
        return None
    if 'hex' in p:
        return vlib.unhex(p['hex'])
    line = vlib.unhex(p['rep'][0])
    return vlib.unhex(p.get('head', '-')) + line * p['rep'][1] + vlib.unhex(p.get('tail', '-'))


def make_scenario(spec):
    """spec -> (session.Scenario, plan, txs)"""
    w = spec.get('world', {})
    control = {}
    for k, v in w.get('control', {}).items():
        control[k] = vlib.unhex(v)
    zone = list(W.ZONE)
    spf = w.get('spf', 'none')
    if SPF_TXT.get(spf):
        zone.append('TXT remote.example %s' % SPF_TXT[spf].hex())
    if spf == 'failexp':
        zone.append('TXT exp.remote.example %s' % b'not allowed: %{i} see http://x.example/%{s}'.hex())
    if spf == 'temperror':
        zone.append('ERR TXT remote.example %d' % errno.EAGAIN)
    doms = {W.LOCAL: {'alice': None, 'carol': None, 'dave': None, 'dave/nomail': b'', 'erin': None,
                      'erin/filterconf': b'check_strict_rfc2822=1\n'}}
    if w.get('catchall'):
        # a catch-all delivery instruction: every local part of the domain is accepted as it was spelled
        doms[W.LOCAL]['.qmail-default'] = b'| /usr/bin/deliver-somewhere\n'
    if w.get('strict_all'):
        for u in ('alice', 'carol'):
            doms[W.LOCAL][u + '/filterconf'] = b'check_strict_rfc2822=1\n'
    env = dict(w.get('env', {}))
    sc = W.base_scenario(relay=w.get('relay', 'absent'), remoteip=w.get('remoteip', W.CLIENT4), port=w.get('port', '25'),
                         databytes=w.get('databytes'), qq=spec.get('qq', ()), extra_control=control, domains=doms,
                         args=w.get('args'), env=env)
    sc.zone = zone
    if w.get('noport'):
        sc.remoteport = None
    if spec.get('qfault'):
        sc.extra_files['qfault'] = spec['qfault'].encode()
    txs = [Tx(vlib.unhex(t['mail']), [vlib.unhex(r) for r in t['rcpts']], payload_bytes(t.get('payload')), t.get('cuts'),
              vlib.unhex(t['greet']) if t.get('greet') else None) for t in spec['txs']]
    pre = [vlib.unhex(x) for x in spec.get('pre', [])]
    post = [vlib.unhex(x) for x in spec.get('post', [b'QUIT'.hex()])]
    sc.items, plan = build_items(pre, txs, post)
    return sc, plan, txs


def streams_after_data(sc):
    """for every DATA command line of the script: all client bytes that follow it"""
    allb = b''.join(it[1] for it in sc.items if it[0] == 'S')
    pos, out = 0, []
    for it in sc.items:
        if it[0] == 'S':
            pos += len(it[1])
            if it[1].upper() == b'DATA\r\n':
                out.append(allb[pos:])
    return out


def command_replies(result, plan):
    """lock-step: the replies that belong to each plan entry (list of code lists), by read position"""
    ends, tot = [], 0
    for p in plan:
        tot += len(p[1]) + (2 if p[0] == 'cmd' else 0); ends.append(tot)
    res = [[] for _ in plan]
    pos, greeting = 0, []
    for kind, val in result.events:
        if kind == 'R':
            pos += len(val)
        elif kind == 'W':
            idx = None
            for i, e in enumerate(ends):
                if pos <= e and (i == 0 or pos > ends[i - 1]):
                    idx = i; break
            codes = reply_codes(val)
            if pos == 0:
                greeting += codes
            elif idx is not None:
                res[idx] += codes
    return greeting, res


def run_model(ctx, lines):
    """driver answers for the lines; long lines (big messages) are spread over all cores"""
    if not ctx.driver or not lines:
        return ['NO-DRIVER'] * len(lines)
    total = sum(len(l) for l in lines)
    if total < 2000000:
        return vlib.run_batch(ctx.driver, lines)
    from concurrent.futures import ThreadPoolExecutor
    n = min(vlib.NCPU, len(lines))
    order = sorted(range(len(lines)), key=lambda i: -len(lines[i]))
    groups, load = [[] for _ in range(n)], [0] * n
    for i in order:
        g = load.index(min(load)); groups[g].append(i); load[g] += len(lines[i]) + 2000
    out = [None] * len(lines)

    def work(g):
        res = vlib._run_chunk([ctx.driver], [lines[i] for i in g])
        for i, o in zip(g, res):
            out[i] = o
    with ThreadPoolExecutor(max_workers=n) as ex:
        list(ex.map(work, [g for g in groups if g]))
    return out


def expected_rest(stream, paylen):
    """what the model must leave for the command loop behind a consumed payload: the following
    lines, then the end of the connection; None when the remainder is not made of plain CRLF lines
    (then the reader's own results decide and nothing is predicted here)"""
    rem = stream[paylen:]
    if not rem.endswith(b'\r\n') and rem:
        return None
    ls = rem[:-2].split(b'\r\n') if rem else []
    for l in ls:
        if b'\r' in l or b'\n' in l or len(l) > 999:
            return None
    return ['L' + (l.hex() or '-') for l in ls] + ['DIE']
