"""Gen/Addr.lean: the numbers of the address grammar code (lib/dns_helpers.c:domainvalid,
qsmtpd/addrsyntax.c, qsmtpd/xtext.c).  Each is located by pattern inside the named function."""
import os, re
from extract import lean_module


def _sys_define(g, name):
    """INET_ADDRSTRLEN / INET6_ADDRSTRLEN come from the system header the code is compiled against."""
    for p in ('/usr/include/netinet/in.h', '/usr/include/arpa/inet.h'):
        try:
            m = re.search(r'^#\s*define\s+%s\s+(\d+)' % name, open(p).read(), re.M)
        except OSError:
            m = None
        if m:
            return int(m.group(1))
    g.broken.append('system headers: #define %s not found' % name)
    return None


def _xtext_buf(g):
    f = 'qsmtpd/xtext.c'
    t = g.text(f) or ''
    m = re.search(r'char addrspec\[(\d+) \+ (\d+) \+ DOMAINNAME_MAX \+ (\d+)\];', t)
    dmax = g.define('include/qdns.h', 'DOMAINNAME_MAX')
    if not m:
        g.broken.append('%s:xtextlen: anchor addrspec[] size not found' % f)
        return None
    if dmax is None:
        return None
    return int(m.group(1)) + int(m.group(2)) + dmax + int(m.group(3))


def gen_addr(g):
    d = 'lib/dns_helpers.c'
    a = 'qsmtpd/addrsyntax.c'
    x = 'qsmtpd/xtext.c'
    items = [
        ('dvLabelMax', g.const(d, 'domainvalid', r'if \(h - \(\(dt == NULL\) \? host : dt \+ 1\) > (\d+)\)', 'label length bound'),
         'domainvalid: at a dot, label start = host or dt + 1; reject when h - start > N'),
        ('dvTotalMax', g.const(d, 'domainvalid', r'if \(\(h - host\) > (\d+)\)', 'total length bound'),
         'domainvalid: (h - host) > N'),
        ('dvLastMin', g.const(d, 'domainvalid', r'\(\(h - dt\) < (\d+)\)', 'last label lower bound'),
         'domainvalid: (h - dt) < N (dot included)'),
        ('dvLastMax', g.const(d, 'domainvalid', r'\(\(h - dt\) > (\d+)\)', 'last label upper bound'),
         'domainvalid: (h - dt) > N (dot included)'),
        ('domainnameMax', g.define('include/qdns.h', 'DOMAINNAME_MAX'), 'include/qdns.h: DOMAINNAME_MAX'),
        ('routeMax', g.const(a, 'addrsyntax', r'if \(\(t - in\) > (\d+)\)', 'source route length bound'),
         'addrsyntax: (t - in) > N after the source route'),
        ('inetAddrStrLen', _sys_define(g, 'INET_ADDRSTRLEN'), 'system header: INET_ADDRSTRLEN (char ipbuf[] in parseaddr)'),
        ('inet6AddrStrLen', _sys_define(g, 'INET6_ADDRSTRLEN'), 'system header: INET6_ADDRSTRLEN (char ipbuf[] in parseaddr)'),
        ('xtextBufSize', _xtext_buf(g), 'xtextlen: char addrspec[64 + 1 + DOMAINNAME_MAX + 1]'),
        ('xtextSlack', g.const(x, 'xtextlen', r'if \(idx > sizeof\(addrspec\) - (\d+)\)', 'decoded length bound'),
         'xtextlen: idx > sizeof(addrspec) - N'),
    ]
    # the two places where parseaddr compares the literal length with the buffer it copies into
    t = g.text(a) or ''
    if len(re.findall(r'if \(addrlen >= INET6?_ADDRSTRLEN\)', t)) != 2:
        g.broken.append('%s:parseaddr: the two "addrlen >= INET[6]_ADDRSTRLEN" guards were not found' % a)
    return lean_module(items)


GENERATORS = {'Addr.lean': gen_addr}
