"""Gen/StartTls.lean: the data of the client side of STARTTLS (property C18).

Everything the model QsmtpModel.StartTlsCli or a C18 theorem mentions that is *data* or a *structural
fact* of qremote/starttlsr.c:tls_init, qremote/conn_mx.c:connect_mx and qremote/qremote.c:quitmsg:
the command and the reply code of the upgrade, which TLSA usages count, where the verification verdict
is consulted, whether pending input is refused before the session is used, whether giving up on a host
forgets the TLS settings of the route, which host name the TLSA lookup uses.  Each anchor is located
by pattern inside the named function; a pattern that no longer matches is a broken tie.
"""
import re
from extract import func_body, lean_module, c_unescape

LIT = r'"((?:[^"\\]|\\.)*)"'


def lean_bytes(b):
    return '[' + ', '.join(str(x) for x in b) + ']'


def _body(g, rel, fn):
    t = g.text(rel)
    if t is None:
        return ''
    b = func_body(t, fn)
    if b is None:
        g.broken.append('%s:%s: function not found' % (rel, fn))
        return ''
    return b


def _strip_comments(b):
    return re.sub(r'/\*.*?\*/', '', b, flags=re.S)


def gen_starttls(g):
    items = []

    def s(name, lit, comment):
        if lit is None:
            items.append((name, 'def %s : List UInt8 := [0] -- BROKEN ANCHOR' % name, 'BROKEN ANCHOR: ' + comment))
        else:
            items.append((name, 'def %s : List UInt8 := %s' % (name, lean_bytes(c_unescape(lit))), comment + ': ' + repr(lit)))

    def n(name, val, comment):
        items.append((name, None if val is None else int(val, 0) if isinstance(val, str) else val, comment))

    # ---- starttlsr.c: tls_init ----------------------------------------------------------
    f = 'qremote/starttlsr.c'
    b = _strip_comments(_body(g, f, 'tls_init'))
    m = re.findall(r'netwrite\(' + LIT + r'\);', b)
    if len(m) != 1:
        g.broken.append('%s:tls_init: the STARTTLS command is written %d times' % (f, len(m)))
    s('cmdStarttls', m[0] if len(m) == 1 else None, 'tls_init: the command that starts the upgrade')
    m = re.findall(r'if \(i != (\d+)\) \{\s*const char \*msg\[\] = \{ "STARTTLS failed at "', b)
    if len(m) != 1:
        g.broken.append('%s:tls_init: test of the reply code to STARTTLS not found' % f)
    n('starttlsOk', m[0] if len(m) == 1 else None, 'tls_init: the only reply code that starts the handshake')
    # shape of the reply loop: first netget(0), further lines must repeat the code
    if not re.search(r'i = netget\(0\);\s*while \(\(i > 0\) && \(linein\.s\[3\] == \'-\'\)\) \{\s*int k = netget\(0\);\s*if \(i != k\) \{\s*'
                     r'if \(k < 0\)\s*i = k;\s*else\s*i = EDONE;\s*break;\s*\}\s*\}', b):
        g.broken.append('%s:tls_init: the loop reading the reply to STARTTLS changed' % f)
    if not re.search(r'return i < 0 \? -i : EDONE;', b):
        g.broken.append('%s:tls_init: result for a refused STARTTLS changed' % f)
    # order of the decisive steps
    p_write = b.find('netwrite(')
    p_conn = b.find('ssl_timeoutconn(myssl, timeout)')
    p_assign = b.find('ssl = myssl;')
    p_verify = b.find('SSL_get_verify_result(myssl)')
    if not (0 < p_write < p_conn < p_assign < p_verify):
        g.broken.append('%s:tls_init: order STARTTLS / handshake / ssl = myssl / verification result changed' % f)
    if not re.search(r'i = ssl_timeoutconn\(myssl, timeout\);\s*if \(i < 0\) \{.*?ssl_free\(myssl\);\s*return -i;\s*\}', b, re.S):
        g.broken.append('%s:tls_init: handling of a failed handshake changed' % f)
    # pending input refused between the handshake and the moment the session is used for I/O
    mid = b[p_conn:p_assign] if 0 < p_conn < p_assign else ''
    pend = re.search(r'if \(data_pending\(myssl\) != 0\) \{.*?ssl_free\(myssl\);\s*return EDONE;\s*\}', mid, re.S)
    n('pendingCheck', 1 if pend else 0,
      'tls_init: 1 iff the upgrade is given up (EDONE) when data_pending() reports input between the handshake and `ssl = myssl`')
    if 'data_pending' in b and not pend:
        g.broken.append('%s:tls_init: data_pending() is used in a way the model does not know' % f)
    # verification
    ver = re.search(r'if \(\*servercert \|\| tlsa_usable > 0\) \{\s*long r = SSL_get_verify_result\(myssl\);\s*if \(r != X509_V_OK\) \{(.*?)return EDONE;\s*\}\s*\}\s*return 0;', b, re.S)
    n('verifyEnforced', 1 if ver else 0,
      'tls_init: 1 iff a verification result other than X509_V_OK ends in EDONE whenever a host certificate file exists or a usable TLSA record was added')
    if not ver:
        g.broken.append('%s:tls_init: the verification step changed' % f)
    if not re.search(r'if \(partner_fqdn == NULL\) \{\s*\*servercert = \'\\0\';', b) or not re.search(r'if \(stat\(servercert, &st\)\)\s*\*servercert = \'\\0\';', b):
        g.broken.append('%s:tls_init: how the host certificate file is found changed' % f)
    pre = re.search(r'const char \*fnprefix = ' + LIT + r';\s*const char \*fnsuffix = ' + LIT + ';', b)
    if not pre:
        g.broken.append('%s:tls_init: name of the host certificate file not found' % f)
    s('pinPrefix', pre.group(1) if pre else None, 'tls_init: directory of the host certificates')
    s('pinSuffix', pre.group(2) if pre else None, 'tls_init: suffix of a host certificate file')
    m = re.search(r'if \(\*servercert && !SSL_CTX_load_verify_locations\(ctx, servercert, NULL\)\) \{\s*const char \*msg\[\] = \{ ' + LIT + r', servercert,', b)
    if not m or not re.search(r'write_status_m\(msg, 6\);\s*SSL_CTX_free\(ctx\);\s*ssl_library_destroy\(\);\s*return -1;', b):
        g.broken.append('%s:tls_init: handling of an unreadable host certificate changed' % f)
    s('stPinLoad', m.group(1) if m else None, 'tls_init: status when the host certificate cannot be loaded')
    # usable TLSA usages: both switches must agree
    sw = re.findall(r'switch \(tlsa_info\[i\]\.cert_usage\) \{(.*?)\n\t\t\t\}', b, re.S)
    usable = []
    for body in sw:
        parts = body.split('continue;')
        usable.append(sorted(int(x) for x in re.findall(r'case (\d+):', parts[-1])) if len(parts) == 2 else None)
    if len(usable) != 2 or usable[0] != usable[1] or not usable[0]:
        g.broken.append('%s:tls_init: the two switches over cert_usage disagree or changed: %r' % (f, usable))
        items.append(('tlsaUsable', 'def tlsaUsable : List Nat := [] -- BROKEN ANCHOR', 'BROKEN ANCHOR: usable TLSA certificate usages'))
    else:
        items.append(('tlsaUsable', 'def tlsaUsable : List Nat := [%s]' % ', '.join(map(str, usable[0])), 'tls_init: TLSA certificate usages that are handed to OpenSSL'))
    if not re.search(r'\} else if \(ret == 0\) \{\s*if \(--tlsa_usable == 0\) \{', b):
        g.broken.append('%s:tls_init: accounting of unusable TLSA records changed' % f)

    # ---- conn_mx.c: connect_mx ------------------------------------------------------------
    f = 'qremote/conn_mx.c'
    b = _strip_comments(_body(g, f, 'connect_mx'))
    n('tlsaFromHead', 1 if re.search(r'tlsa = \(mx->name == NULL\) \? 0 : dnstlsa\(mx->name, targetport, &d\);', b) else 0,
      'connect_mx: 1 iff the TLSA lookup of every attempt uses the name of the first entry of the MX list')
    if 'dnstlsa(' not in b:
        g.broken.append('%s:connect_mx: no TLSA lookup found' % f)
    elif not re.search(r'tlsa = \(mx->name == NULL\) \? 0 : dnstlsa\(mx->name, targetport, &d\);', b):
        g.broken.append('%s:connect_mx: the TLSA lookup changed (model knows only the lookup for mx->name)' % f)
    m = re.search(r'if \(smtpext & esmtp_starttls\) \{\s*flagerr = tls_init\(d, tlsa\);\s*if \(flagerr < 0\) \{\s*daneinfo_free\(d, tlsa\);\s*net_conn_shutdown\(shutdown_clean\);\s*\}\s*'
                  r'if \(flagerr != 0\) \{\s*quitmsg_if_net\(-flagerr\);\s*continue;\s*\}\s*flagerr = greeting\(\);\s*if \(flagerr < 0\) \{\s*quitmsg_if_net\(flagerr\);\s*continue;\s*\} else \{\s*smtpext = flagerr;\s*\}', b)
    n('secondGreeting', 1 if m else 0, 'connect_mx: 1 iff a successful tls_init() is followed by greeting() whose result replaces smtpext')
    if not m:
        g.broken.append('%s:connect_mx: the STARTTLS branch changed' % f)
    m = re.search(r'\} else if \(expect_tls\) \{.*?quitmsg\(\);\s*continue;\s*\} else if \(tlsa > 0\) \{.*?quitmsg\(\);\s*continue;\s*\}\s*\} while \(socketd < 0\);', b, re.S)
    n('noStarttlsRefused', 1 if m else 0,
      'connect_mx: 1 iff a host that does not offer STARTTLS is left when expect_tls is set or TLSA records were found')
    if not m:
        g.broken.append('%s:connect_mx: the branches for a missing STARTTLS changed' % f)

    # the two ways to leave a host without QUIT: is the TLS session released together with the socket?
    t = _strip_comments(g.text(f) or '')
    qin = func_body(t, 'quitmsg_if_net') or ''
    died = func_body(t, 'connection_died') or ''
    helper = func_body(t, 'drop_connection') or ''
    bare = r'close\(socketd\);\s*socketd = -1;'
    frees = re.search(r'if \(ssl != NULL\) \{\s*ssl_free\(ssl\);\s*ssl = NULL;\s*\}\s*' + bare, helper) is not None
    if re.search(r'case -EPIPE:\s*case -ECONNRESET:\s*case -ETIMEDOUT:\s*' + bare + r'\s*break;\s*default:\s*quitmsg\(\);', qin) and re.search(bare, died) \
            and 'ssl' not in qin and 'ssl' not in died:
        close_frees = 0
    elif frees and re.search(r'case -EPIPE:\s*case -ECONNRESET:\s*case -ETIMEDOUT:\s*drop_connection\(\);\s*break;\s*default:\s*quitmsg\(\);', qin) \
            and re.search(r'drop_connection\(\);', died) and not re.search(bare, qin) and not re.search(bare, died):
        close_frees = 1
    else:
        close_frees = None
        g.broken.append('%s: quitmsg_if_net() / connection_died() close the connection in a way the model does not know' % f)
    n('closeFreesTls', close_frees, 'conn_mx.c: 1 iff giving up a host without QUIT (reset, time-out) also releases the TLS session')

    # ---- qremote.c: quitmsg ---------------------------------------------------------------
    f = 'qremote/qremote.c'
    b = _strip_comments(_body(g, f, 'quitmsg'))
    n('quitKeepsRoute', 0 if 'free_smtproute_vals()' in b else 1,
      'quitmsg: 1 iff leaving one host keeps expect_tls and the client certificate of the route (0: free_smtproute_vals() is called)')
    if not re.search(r'if \(ssl\) \{\s*ssl_free\(ssl\);\s*ssl = NULL;\s*\}\s*close\(socketd\);\s*socketd = -1;', b):
        g.broken.append('%s:quitmsg: release of the TLS session / socket changed' % f)
    if not re.search(r'do \{.*?if \(net_read\(0\)\) \{.*?break;\s*\}\s*\} while \(\(linein\.len >= 4\) && \(linein\.s\[3\] == \'-\'\)\);', b, re.S):
        g.broken.append('%s:quitmsg: the loop reading the reply to QUIT changed' % f)

    # ---- smtproutes.c: what free_smtproute_vals() resets, when expect_tls is set ------------
    f = 'qremote/smtproutes.c'
    b = _strip_comments(_body(g, f, 'free_smtproute_vals'))
    if 'expect_tls = false;' not in b or not re.search(r'clientcertname = ' + LIT + ';', b):
        g.broken.append('%s:free_smtproute_vals: no longer resets expect_tls and clientcertname' % f)
    t = g.text(f) or ''
    if 'expect_tls = !is_default_file;' not in t:
        g.broken.append('%s:smtproute: expect_tls is no longer derived from a clientcert entry of a non-default route file' % f)

    text = lean_module(items)
    return text.replace('namespace QsmtpModel.Gen', 'namespace QsmtpModel.Gen.Tls', 1).replace('end QsmtpModel.Gen', 'end QsmtpModel.Gen.Tls')


GENERATORS = {'StartTls.lean': gen_starttls}
