"""Gen/Control.lean: the numbers of lib/control.c, lib/match.c and qsmtpd/antispam.c that the models
`Control` and `Match` (C16, C01) and their theorems mention."""
import re
from extract import func_body, lean_module

SIZEOF = {'struct in_addr': 4, 'struct in6_addr': 16}


def _sizeof_arg(g, rel, func, what):
    t = g.text(rel)
    body = func_body(t, func) if t else None
    if body is None:
        g.broken.append('%s:%s: function not found (anchor %s)' % (rel, func, what))
        return None
    m = re.search(r'check_ipbl_file\(sizeof\(([^)]+)\),', body)
    if not m or m.group(1).strip() not in SIZEOF:
        g.broken.append('%s:%s: anchor %s not found (check_ipbl_file(sizeof(<address type>), ...))' % (rel, func, what))
        return None
    return SIZEOF[m.group(1).strip()]


def _ip6_bits(g, m):
    t = g.text(m)
    body = func_body(t, 'ip6_matchnet') if t else None
    if body is None:
        g.broken.append('%s:ip6_matchnet: function not found' % m)
        return None
    vals = re.findall(r'mask / (\d+)', body) + re.findall(r'mask % (\d+)', body) + re.findall(r'\((\d+) - \(mask % \d+\)\)', body)
    if len(vals) < 5 or len(set(vals)) != 1:
        g.broken.append('%s:ip6_matchnet: word width sites %s (expected five equal values)' % (m, vals))
        return None
    return int(vals[0])


def gen_control(g):
    c, m, a = 'lib/control.c', 'lib/match.c', 'qsmtpd/antispam.c'
    items = [
        ('loadintStriptab', g.const(c, 'loadintfd', r'lloadfilefd\(fd, &tmpbuf, (\d+)\)', 'striptab of loadintfd'),
         'loadintfd: lloadfilefd(fd, &tmpbuf, N)'),
        ('loadintBase', g.const(c, 'loadintfd', r'strtoul\(tmpbuf, &l, (\d+)\)', 'strtoul base'),
         'loadintfd: strtoul(tmpbuf, &l, N)'),
        ('onelinerStriptab', g.const(c, 'loadonelinerfd', r'lloadfilefd\(fd, buf, (\d+)\)', 'striptab of loadonelinerfd'),
         'loadonelinerfd: lloadfilefd(fd, buf, N)'),
        ('loadlistStriptab', g.const(c, 'loadlistfd', r'lloadfilefd\(fd, &buf, (\d+)\)', 'striptab of loadlistfd'),
         'loadlistfd: lloadfilefd(fd, &buf, N)'),
        ('lloadBlankBit', g.const(c, 'lloadfilefd', r'\(striptab & (\d+)\) && \(\(inbuf\[j\] == \' \'\)', 'blank handling bit'),
         'lloadfilefd: (striptab & N) selects the trailing-blank rule'),
        ('lloadCompactBit', g.const(c, 'lloadfilefd', r'if \(striptab & (\d+)\) \{\s*j = compact_buffer', 'compaction bit'),
         'lloadfilefd: (striptab & N) selects compact_buffer()'),
        ('matchWordBits', g.const(m, 'ip4_matchnet', r'1U << \((\d+) - mask\)', 'word width in ip4_matchnet'),
         'ip4_matchnet: 1U << (N - mask)'),
        ('matchWordBits6', _ip6_bits(g, m), 'ip6_matchnet: mask / N, mask % N, N - (mask % N): five sites, all equal'),
        ('ip4WordIndex', g.const(m, 'ip4_matchnet', r'ip->s6_addr32\[(\d+)\]', 'IPv4 word of the mapped address'),
         'ip4_matchnet: ip->s6_addr32[N]'),
        ('ipblMinMask', g.const(a, 'check_ipbl_file', r'netmask < (\d+)\)', 'smallest accepted prefix length'),
         'check_ipbl_file: netmask < N is malformed'),
        ('ipblBitsPerByte', g.const(a, 'check_ipbl_file', r'maskmax = \(unsigned int\) \((\d+) \* iplen\)', 'largest accepted prefix length'),
         'check_ipbl_file: maskmax = N * iplen'),
        ('ipblRecordExtra', g.const(a, 'check_ipbl_file', r'recordlen = iplen \+ (\d+);', 'record length'),
         'check_ipbl_file: recordlen = iplen + N'),
        ('ipblIplen4', _sizeof_arg(g, a, 'check_ip4', 'iplen of check_ip4'), 'check_ip4: sizeof(struct in_addr)'),
        ('ipblIplen6', _sizeof_arg(g, a, 'check_ip6', 'iplen of check_ip6'), 'check_ip6: sizeof(struct in6_addr)'),
    ]
    return lean_module(items)


GENERATORS = {'Control.lean': gen_control}
