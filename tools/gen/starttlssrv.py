"""Gen/StartTlsSrv.lean: what the server side of STARTTLS (qsmtpd/starttls.c, qsmtpd/syntax.c,
lib/netio.c:data_pending, qsmtpd/commands.c:smtp_ehlo) contributes as *data*: the reply codes of the
literals written by the modelled functions, the size of the look-ahead probe, the certificate file
name buffer, and the order of the four steps of tls_init() that the property rests on
(pending-input check, "220", handshake, `ssl = myssl`)."""
import re
from extract import func_body, lean_module

ST = 'qsmtpd/starttls.c'
SY = 'qsmtpd/syntax.c'
NE = 'lib/netio.c'
CO = 'qsmtpd/commands.c'


def _code(g, rel, func, pattern, what):
    return g.const(rel, func, pattern, what)


def _present(g, rel, func, pattern, what):
    t = g.text(rel)
    body = None if t is None else (t if func is None else func_body(t, func))
    if body is None:
        g.broken.append('%s:%s: function not found (anchor %s)' % (rel, func, what))
        return False
    if not re.search(pattern, body, re.S):
        g.broken.append('%s:%s: anchor %s not found (/%s/)' % (rel, func, what, pattern))
        return False
    return True


def _ordered(g, rel, func, tokens, what):
    """the literal tokens occur in this order in the function body (comments removed). Deliberately loose:
    the differential run ties the behaviour, this only notices when a modelled step disappears or moves."""
    t = g.text(rel)
    body = None if t is None else func_body(t, func)
    if body is None:
        g.broken.append('%s:%s: function not found (anchor %s)' % (rel, func, what))
        return False
    body = re.sub(r'/\*.*?\*/', ' ', body, flags=re.S)
    pos = 0
    for tok in tokens:
        k = body.find(tok, pos)
        if k < 0:
            g.broken.append('%s:%s: anchor %s: `%s` not found (in this order)' % (rel, func, what, tok))
            return False
        pos = k + len(tok)
    return True


def _tls_init_order(g):
    """1 if sync_pipelining() is called in tls_init() before the 220 is written, 0 if it is not
    called there (or only later).  The other three anchors must be found in the order
    220 < handshake < `ssl = myssl`; anything else is a broken tie."""
    t = g.text(ST)
    body = func_body(t or '', 'tls_init')
    if body is None:
        g.broken.append('%s:tls_init: function not found' % ST)
        return None
    # comments do not count
    body = re.sub(r'/\*.*?\*/', lambda m: ' ' * len(m.group(0)), body, flags=re.S)
    p220 = [m.start() for m in re.finditer(r'netwrite\("220 ', body)]
    pacc = [m.start() for m in re.finditer(r'ssl_timeoutaccept\(', body)]
    pset = [m.start() for m in re.finditer(r'(?<![\w.])ssl = myssl;', body)]
    pxs = [m.start() for m in re.finditer(r'xmitstat\.ssl = myssl;', body)]
    if len(p220) != 1 or len(pacc) != 1 or len(pset) != 1 or len(pxs) != 1:
        g.broken.append('%s:tls_init: expected exactly one "220" write, one ssl_timeoutaccept(), one `ssl = myssl` and one `xmitstat.ssl = myssl` (found %d/%d/%d/%d)'
                        % (ST, len(p220), len(pacc), len(pset), len(pxs)))
        return None
    if not (p220[0] < pacc[0] < pset[0] and pacc[0] < pxs[0]):
        g.broken.append('%s:tls_init: the order 220 < ssl_timeoutaccept < ssl = myssl no longer holds' % ST)
        return None
    # nothing may write or read between the failure branch of the handshake and the assignment except through tls_out
    psync = [m.start() for m in re.finditer(r'(?<!\w)sync_pipelining\(\);', body)]
    if len(psync) > 1:
        g.broken.append('%s:tls_init: sync_pipelining() called %d times' % (ST, len(psync)))
        return None
    return 1 if (psync and psync[0] < p220[0]) else 0


def gen_starttls(g):
    ok_guard = _present(g, ST, 'smtp_starttls', r'if \(xmitstat\.ssl \|\| !xmitstat\.esmtp\)\s*return 1;\s*return tls_init\(\);', 'guard of smtp_starttls')
    _ordered(g, NE, 'data_pending', ['if (linenlen)', 'return 1', 'SSL_pending(s)', 'poll(&rfd, 1, 0)', 'read(rfd.fd, lineinn,', 'linenlen = i', 'return 1', 'return -ECONNRESET'], 'steps of data_pending')
    _ordered(g, SY, 'sync_pipelining', ['data_pending(xmitstat.ssl)', 'dieerror(', 'if (!xmitstat.esmtp)', 'hasinput(1)', 'netwrite("503 ', 'wait_for_quit()'], 'steps of sync_pipelining')
    _ordered(g, SY, 'hasinput', ['data_pending(xmitstat.ssl)', 'net_read(1)', 'netwrite("550 ', 'if (quitloop)', 'wait_for_quit()', 'return EBOGUS'], 'steps of hasinput')
    _ordered(g, SY, 'wait_for_quit', ['while (1)', 'net_read(1)', 'strncasecmp(linein.s, quitcmd', 'smtp_quit()', 'check_max_bad_commands()', 'netwrite("503 '], 'steps of wait_for_quit')
    _present(g, CO, 'smtp_ehlo', r'if \(!xmitstat\.ssl && \(\(localport == NULL\) \|\| \(strcmp\(localport, "465"\) != 0\)\)\) \{\s*if \(find_servercert\(localport\) == 0\)\s*msg\[next\+\+\] = "250-STARTTLS\\r\\n";', 'STARTTLS announcement in smtp_ehlo')
    _present(g, CO, 'smtp_noop', r'^\s*sync_pipelining\(\);\s*return netwrite\("250 ', 'sync_pipelining in smtp_noop')
    _present(g, ST, 'tls_err', r'return r \? r : -EDONE;', 'tls_err returns -EDONE')
    _present(g, ST, 'tls_init', r'return -tls_out\("connection failed", err, -EDONE\);', 'failed handshake returns EDONE')
    _present(g, ST, 'tls_init', r'if \(j == -ETIMEDOUT\) \{\s*ssl_free\(myssl\);\s*dieerror\(ETIMEDOUT\);', 'handshake timeout is fatal')
    m = re.search(r'static char certfilename\[(\d+) \+ INET6_ADDRSTRLEN \+ (\d+)\] = "([^"]*)";', g.text(ST) or '')
    if not m:
        g.broken.append('%s: certfilename[] declaration not found' % ST)
        certsz, certname = None, b''
    else:
        certsz, certname = int(m.group(1)) + 46 + int(m.group(2)), m.group(3).encode()
    mk = re.search(r'static char keyfilenamebuf\[sizeof\(certfilename\)\] = "([^"]*)";', g.text(ST) or '')
    if not mk:
        g.broken.append('%s: keyfilenamebuf[] declaration not found' % ST)
    keyname = mk.group(1).encode() if mk else b''

    # find_servercert(): is `oldlen` the length of the plain name (repaired: the buffers are cut back to the
    # plain names first) or the length of whatever an earlier call left in certfilename (as found)?
    fb = func_body(g.text(ST) or '', 'find_servercert') or ''
    fb_nc = re.sub(r'/\*.*?\*/', '', fb, flags=re.S)
    if re.search(r'const size_t oldlen = strlen\(certfilename\);', fb_nc) and not re.search(r'keyfilename = certfilename;', fb_nc):
        oldfixed = 0
    elif (certname and re.search(r'const size_t oldlen = strlen\("%s"\);' % re.escape(certname.decode()), fb_nc)
          and re.search(r'certfilename\[oldlen\] = \'\\0\';\s*keyfilenamebuf\[oldlen - 1\] = \'\\0\';\s*keyfilename = certfilename;\s*certfilename\[oldlen\] = \'\.\';', fb_nc)):
        oldfixed = 1
    else:
        g.broken.append('%s:find_servercert: neither the original nor the repaired computation of oldlen recognised' % ST)
        oldfixed = None
    for pat, what in ((r"certfilename\[oldlen\] = '\.';\s*strncpy\(certfilename \+ oldlen \+ 1, xmitstat\.localip, sizeof\(certfilename\) - oldlen - 1\);", 'append of the address'),
                      (r"iplen = oldlen \+ 1 \+ strlen\(xmitstat\.localip\);\s*certfilename\[iplen\] = ':';\s*strncpy\(certfilename \+ iplen \+ 1, localport, sizeof\(certfilename\) - iplen - 1\);", 'append of the port'),
                      (r"memcpy\(keyfilenamebuf \+ oldlen - 1, certfilename \+ oldlen, sizeof\(certfilename\) - oldlen\);", 'suffix copied to the key name'),
                      (r'const size_t diroffs = strlen\("control/"\);', 'directory offset')):
        if not re.search(pat, fb_nc):
            g.broken.append('%s:find_servercert: anchor %s not found' % (ST, what))

    def lst(b):
        return '[%s]' % ', '.join(str(x) for x in b)
    items = [
        ('tlsReadyCode', _code(g, ST, 'tls_init', r'netwrite\("(\d\d\d) [^"]*ready for tls', 'ready reply'), 'tls_init: netwrite("NNN 2.0.0 ready for tls")'),
        ('tlsHsFailCode', _code(g, ST, 'tls_out', r'"(\d\d\d) 4\.3\.0 TLS "', 'handshake failure reply'), 'tls_out: "NNN 4.3.0 TLS "'),
        ('tlsInitFailCode', _code(g, ST, 'tls_err', r'\{"(\d\d\d) 4\.3\.0 local TLS initialization failed"', 'initialisation failure reply'), 'tls_err: "NNN 4.3.0 local TLS initialization failed"'),
        ('pipeErrCode', _code(g, SY, 'sync_pipelining', r'netwrite\("(\d\d\d) 5\.5\.1 SMTP command sent after end of PIPELINING', 'pipelining error reply'), 'sync_pipelining: reply when input is pending'),
        ('mustWaitCode', _code(g, SY, 'hasinput', r'netwrite\("(\d\d\d) 5\.5\.0 you must wait', 'must-wait reply'), 'hasinput: reply when input is pending'),
        ('waitQuitCode', _code(g, SY, 'wait_for_quit', r'netwrite\("(\d\d\d) 5\.5\.1 Bad sequence', 'reply of wait_for_quit'), 'wait_for_quit: reply to everything but QUIT'),
        ('tooManyCode', g.const(SY, 'check_max_bad_commands', r'netwrite\("(\d\d\d)[ -]5\.7\.1 ', 'too many bad commands', count_min=2), 'check_max_bad_commands: reply before the connection is dropped'),
        ('probeLen', _code(g, NE, 'data_pending', r'i = read\(rfd\.fd, lineinn, (\d+)\);', 'probe read size'), 'data_pending: read(fd, lineinn, N) when poll reports input'),
        ('tlsSyncBeforeReady', _tls_init_order(g), 'tls_init: 1 = sync_pipelining() is called before the 220 is written (then handshake, then ssl = myssl)'),
        ('starttlsGuard', 1 if ok_guard else None, 'smtp_starttls: `if (xmitstat.ssl || !xmitstat.esmtp) return 1;` is the whole guard'),
        ('certOldlenFixed', oldfixed, 'find_servercert: 1 = oldlen is the length of the plain name and the buffers are reset first; 0 = oldlen = strlen(certfilename)'),
        ('certBufSize', certsz, 'starttls.c: sizeof(certfilename) = sizeof(keyfilenamebuf)'),
        ('certBaseName', 'def certBaseName : List UInt8 := %s' % lst(certname), 'starttls.c: initial content of certfilename'),
        ('keyBaseName', 'def keyBaseName : List UInt8 := %s' % lst(keyname), 'starttls.c: initial content of keyfilenamebuf'),
    ]
    return lean_module(items)


GENERATORS = {'StartTlsSrv.lean': gen_starttls}
