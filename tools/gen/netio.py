"""Gen/Netio.lean and Gen/Templates.lean: constants of lib/netio.c and the reply templates."""
import os, re
from extract import func_body, lean_module, c_unescape

def gen_netio(g):
    f = 'lib/netio.c'
    items = [
        ('lineinbufSize', g.const(f, None, r'static char lineinbuf\[(\d+)\];', 'lineinbuf size'), 'lib/netio.c: static char lineinbuf[N]'),
        ('netWritenMsgSize', g.const(f, 'net_writen', r'char msg\[(\d+)\];', 'msg size'), 'net_writen: char msg[N]'),
        ('netWritenFoldSlack', _fold(g, f), 'net_writen: sizeof(msg) - N window (three sites, all equal)'),
        ('netWritenBruteSlack', g.const(f, 'net_writen', r'm = sizeof\(msg\) - (\d+);', 'brute split'), 'net_writen: forced split m = sizeof(msg) - N'),
        ('netWritenFlushSlack', g.const(f, 'net_writen', r'len \+ l > sizeof\(msg\) - (\d+)\)', 'flush threshold'), 'net_writen: flush when len + l > sizeof(msg) - N'),
    ]
    return lean_module(items)


def _fold(g, f):
    body = func_body(g.text(f), 'net_writen') or ''
    vals = re.findall(r'off \+ sizeof\(msg\) - (\d+)\)', body) + re.findall(r'l \+ (\d+) > sizeof\(msg\)', body) + \
        re.findall(r'- off < sizeof\(msg\) - (\d+)\)', body)
    if len(vals) != 3 or len(set(vals)) != 1:
        g.broken.append('%s:net_writen: fold window sites %s (expected three equal values)' % (f, vals))
        return None
    return int(vals[0])


def reply_templates(g):
    """first parts (s[0]) of every reply array passed to net_writen in qsmtpd: array initialisers
    whose first element is a literal starting with a three digit code and ' ' or '-'."""
    res = []
    root = os.path.join(g.src, 'qsmtpd')
    for dp, _, files in sorted(os.walk(root)):
        for f in sorted(files):
            if f.endswith('.c'):
                rel = os.path.relpath(os.path.join(dp, f), g.src)
                t = g.text(rel) or ''
                for m in re.finditer(r'const char \*\w+\[\]\s*=\s*\{\s*"(\d\d\d[ -](?:[^"\\\\]|\\\\.)*)"\s*[,}]', t):
                    res.append((rel, c_unescape(m.group(1))))
    if len(res) < 10:
        g.broken.append('qsmtpd/*.c: only %d reply templates found (pattern no longer matches)' % len(res))
    return res


def gen_templates(g):
    ts = reply_templates(g)
    body = 'def writenTemplates : List (List UInt8) := [\n' + ',\n'.join(
        '  [%s] /- %s -/' % (', '.join(str(b) for b in t), rel) for rel, t in ts) + ']'
    return lean_module([('writenTemplates', body, 'first element of every reply array (code + separator + fixed text) in qsmtpd/')])


GENERATORS = {'Netio.lean': gen_netio, 'Templates.lean': gen_templates}
