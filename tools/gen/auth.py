"""Gen/Base64.lean and Gen/Auth.lean: the *data* of lib/base64.c, qsmtpd/auth.c, the checkpassword
backend and the AUTH/EHLO rows of the command table (qsmtpd/qsmtpd.c)."""
import re
from extract import func_body, lean_module, c_unescape

B64 = 'lib/base64.c'
AUTH = 'qsmtpd/auth.c'
BACK = 'qsmtpd/backends/auth_chkpw/qsauth_backend_cp.c'
QS = 'qsmtpd/qsmtpd.c'
QH = 'include/qsmtpd/qsmtpd.h'

LIT = r'"((?:[^"\\]|\\.)*)"'


def body_of(text, name):
    """function body, also for definitions whose name is not at column 0 (static int f(void))"""
    b = func_body(text, name)
    if b is not None:
        return b
    m = re.search(r'^[A-Za-z_][\w \t\*]*\b%s\([^;{]*?\)\s*\n?\{' % re.escape(name), text, re.M)
    if not m:
        return None
    end = text.find('\n}\n', m.end())
    return text[m.end():end] if end > 0 else None


def bytes_def(name, b, comment):
    return (name, 'def %s : List UInt8 := [%s]' % (name, ', '.join(str(x) for x in b)), comment)


def lits_in(g, rel, func, pattern, n, what):
    """the string literals captured by `pattern` in `func`, exactly n of them, in source order"""
    t = g.text(rel)
    if t is None:
        return [None] * n
    b = body_of(t, func)
    if b is None:
        g.broken.append('%s:%s: function not found (%s)' % (rel, func, what))
        return [None] * n
    v = re.findall(pattern, b)
    if len(v) != n:
        g.broken.append('%s:%s: %s: expected %d literal(s) matching /%s/, found %d' % (rel, func, what, n, pattern, len(v)))
        return [None] * n
    return [c_unescape(x) for x in v]


def num_in(g, rel, func, pattern, what):
    t = g.text(rel)
    if t is None:
        return None
    b = body_of(t, func)
    if b is None:
        g.broken.append('%s:%s: function not found (%s)' % (rel, func, what))
        return None
    v = re.findall(pattern, b)
    if not v or len(set(v)) != 1:
        g.broken.append('%s:%s: anchor %s: /%s/ found %s' % (rel, func, what, pattern, v))
        return None
    return int(v[0], 0)


def gen_base64(g):
    t = g.text(B64) or ''
    items = []
    m = re.search(r'static const char \*b64alpha\s*=\s*((?:\s*"(?:[^"\\]|\\.)*")+)\s*;', t)
    if not m:
        g.broken.append('%s: b64alpha table not found' % B64)
        items.append(bytes_def('b64alpha', b'', 'BROKEN ANCHOR b64alpha'))
    else:
        alpha = b''.join(c_unescape(x) for x in re.findall(LIT, m.group(1)))
        items.append(bytes_def('b64alpha', alpha, 'lib/base64.c: b64alpha (without the terminating NUL)'))
    m = re.search(r"#define B64PAD \(\(char\) '(.)'\)", t)
    if not m:
        g.broken.append('%s: B64PAD not found' % B64)
    items.append(('b64pad', ord(m.group(1)) if m else None, 'lib/base64.c: B64PAD'))
    items.append(('b64decodeSlack', g.const(B64, 'b64decode', r'out->s = malloc\(l \+ (\d+)\);', 'output size'), 'b64decode: malloc(l + N)'))
    items.append(('b64encodeSlack', g.const(B64, 'b64encode', r'malloc\(i \+ \(i / wraplimit\) \* 2 \+ (\d+)\);', 'output size'), 'b64encode: malloc(i + (i / wraplimit) * 2 + N)'))
    items.append(('b64movebuf', g.const(B64, 'b64encode', r'char movebuf\[(\d+)\];', 'movebuf'), 'b64encode: char movebuf[N]'))
    return lean_module(items)


def command_rows(g):
    """rows of commands[] as the preprocessor would see them in the baseline build (CHUNKING off)"""
    t = g.text(QS) or ''
    m = re.search(r'static struct smtpcomm commands\[\] = \{(.*?)\n\};', t, re.S)
    if not m:
        g.broken.append('%s: commands[] not found' % QS)
        return []
    tab = re.sub(r'#ifdef CHUNKING.*?#endif', '', m.group(1), flags=re.S)
    rows = re.findall(r'_C\("([^"]*)",\s*(0x[0-9a-fA-F]+),\s*(\w+),\s*(-?(?:0x)?[0-9a-fA-F]+),\s*(\d+)\)', tab)
    if len(rows) < 10:
        g.broken.append('%s: commands[]: only %d rows parsed' % (QS, len(rows)))
    return rows


def gen_auth(g):
    items = []
    # --- reply texts, keyed by function and ordinal
    (ei,) = lits_in(g, AUTH, 'err_input', r'netwrite\(' + LIT + r'\)', 1, 'reply')
    (eb,) = lits_in(g, AUTH, 'err_base64', r'netwrite\(' + LIT + r'\)', 1, 'reply')
    (ec,) = lits_in(g, AUTH, 'authgetl', r'netwrite\(' + LIT + r'\)', 1, 'cancel reply')
    lu, lp = lits_in(g, AUTH, 'auth_login', r'netwrite\(' + LIT + r'\)', 2, 'prompts')
    (pp,) = lits_in(g, AUTH, 'auth_plain', r'netwrite\(' + LIT + r'\)', 1, 'prompt')
    ok, fail, unk = lits_in(g, AUTH, 'smtp_auth', r'netwrite\(' + LIT + r'\)', 3, 'replies')
    t = g.text(AUTH) or ''
    m = re.search(r'^const char \*tempnoauth = ' + LIT + ';', t, re.M)
    if not m:
        g.broken.append('%s: tempnoauth not found' % AUTH)
    tna = c_unescape(m.group(1)) if m else None
    for name, val, c in [('authErrInput', ei, 'err_input'), ('authErrBase64', eb, 'err_base64'), ('authCancelled', ec, 'authgetl: "*"'),
                         ('authLoginUser', lu, 'auth_login: first prompt'), ('authLoginPass', lp, 'auth_login: second prompt'),
                         ('authPlainPrompt', pp, 'auth_plain: prompt'), ('authOk', ok, 'smtp_auth: case 0'),
                         ('authFailed', fail, 'smtp_auth: case 1'), ('authUnknownMech', unk, 'smtp_auth: no mechanism matched'),
                         ('authTempNoAuth', tna, 'tempnoauth')]:
        items.append(bytes_def(name, val if val is not None else b'', ('qsmtpd/auth.c ' + c) if val is not None else 'BROKEN ANCHOR ' + c))
    # --- the order of the smtp_auth switch: which literal belongs to which case
    b = body_of(t, 'smtp_auth') or ''
    if not re.search(r'case 0:\s*return netwrite\("235[^"]*"\) \? errno : 0;', b) or \
       not re.search(r'case 1:\s*STREMPTY\(xmitstat\.authname\);\s*sleep\((\d+)\);\s*return netwrite\("535[^"]*"\) \? errno : EDONE;', b) or \
       not re.search(r'default:\s*assert\(r < 0\);\s*STREMPTY\(xmitstat\.authname\);\s*return -r;', b):
        g.broken.append('%s:smtp_auth: result switch no longer has the shape the model mirrors' % AUTH)
    if not re.search(r'if \(xmitstat\.authname\.len \|\| !auth_permitted\(\)\)\s*return 1;\s*STREMPTY\(xmitstat\.authname\);', b):
        g.broken.append('%s:smtp_auth: entry guard no longer has the shape the model mirrors' % AUTH)
    items.append(('authFailSleep', num_in(g, AUTH, 'smtp_auth', r'sleep\((\d+)\);', 'sleep'), 'smtp_auth: sleep(N) after a failed attempt'))
    items.append(('authTypeOffset', num_in(g, AUTH, 'smtp_auth', r'char \*type = linein\.s \+ (\d+);', 'type offset'), 'smtp_auth: type = linein.s + N'))
    # --- numbers
    n1 = num_in(g, AUTH, 'auth_login', r'linein\.len(?: -|\s*>) (\d+)', 'initial response offset')
    n2 = num_in(g, AUTH, 'auth_plain', r'linein\.len(?: -|\s*>) (\d+)', 'initial response offset')
    n3 = num_in(g, AUTH, 'auth_login', r'linein\.s \+ (\d+)', 'initial response offset')
    n4 = num_in(g, AUTH, 'auth_plain', r'linein\.s \+ (\d+)', 'initial response offset')
    items.append(('authLoginArgOffset', n1 if n1 == n3 else None, 'auth_login: linein.len > N, linein.s + N, linein.len - N (all equal)'))
    items.append(('authPlainArgOffset', n2 if n2 == n4 else None, 'auth_plain: linein.len > N, linein.s + N, linein.len - N (all equal)'))
    if n1 != n3 or n2 != n4:
        g.broken.append('%s: initial-response offsets differ within a function: login %s/%s plain %s/%s' % (AUTH, n1, n3, n2, n4))
    c1 = num_in(g, AUTH, 'authgetl', r'realloc\(authin->s, authin->len \+ (\d+)\)', 'chunk')
    c2 = num_in(g, AUTH, 'authgetl', r'net_readline\((\d+), authin->s \+ authin->len\)', 'chunk')
    if c1 is not None and c2 is not None and c2 > c1:
        g.broken.append('%s:authgetl: reads %d bytes into a %d byte extension' % (AUTH, c2, c1))
    items.append(('authGetlChunk', c2, 'authgetl: net_readline(N, ...)'))
    items.append(('authGetlAlloc', c1, 'authgetl: realloc(.., len + N)'))
    # --- mechanism table (AUTHCRAM is off in the baseline configuration)
    m = re.search(r'authcmds\[\] = \{(.*?)\n\};', t, re.S)
    mechs = []
    if m:
        tab = re.sub(r'#ifdef AUTHCRAM.*?#endif', '', m.group(1), flags=re.S)
        mechs = re.findall(r'\.text = "([^"]*)",\s*\.fun = (\w+)', tab)
    kinds = {'auth_login': 0, 'auth_plain': 1}
    if not mechs or any(f not in kinds for _, f in mechs):
        g.broken.append('%s: authcmds[] not found or has an unknown handler: %s' % (AUTH, mechs))
        mechs = []
    items.append(('authMechs', 'def authMechs : List (List UInt8 × Nat) := [%s]' % ', '.join(
        '([%s], %d)' % (', '.join(str(x) for x in n.encode()), kinds[f]) for n, f in mechs),
        'authcmds[]: (name, handler) with handler 0 = auth_login, 1 = auth_plain'))
    # --- auth_permitted
    pb = body_of(t, 'auth_permitted') or ''
    if not re.search(r'if \(auth_host == NULL\)\s*return 0;\s*if \(sslauth && \(xmitstat\.ssl == NULL\)\)\s*return 0;\s*return 1;', pb):
        g.broken.append('%s:auth_permitted: body no longer has the shape the model mirrors' % AUTH)
    # --- EDONE
    items.append(('EDONE', g.define(QH, 'EDONE'), 'include/qsmtpd/qsmtpd.h: EDONE'))
    # --- backend
    bt = g.text(BACK) or ''
    for fn, nm in [('err_child', 'authLogChild'), ('err_fork', 'authLogFork'), ('err_pipe', 'authLogPipe'), ('err_write', 'authLogWrite')]:
        (lv,) = lits_in(g, BACK, fn, r'log_write\(LOG_ERR, ' + LIT + r'\)', 1, 'log text')
        items.append(bytes_def(nm, lv if lv is not None else b'', BACK + ' ' + fn))
        fb = body_of(bt, fn) or ''
        if not re.search(r'if \(!netwrite\(tempnoauth\)\)\s*return -EDONE;\s*return -errno;', fb):
            g.broken.append('%s:%s: no longer "netwrite(tempnoauth) ? -errno : -EDONE"' % (BACK, fn))
    eb_ = body_of(bt, 'auth_backend_execute') or ''
    writes = re.findall(r'WRITE\(([^;]*)\);', eb_)
    want = ['user->s, user->len + 1', 'pass->s, pass->len + 1', 'resp->s, resp->len', '"", 1']
    if [w.strip() for w in writes] != want:
        g.broken.append('%s:auth_backend_execute: WRITE sequence is %s, the model mirrors %s' % (BACK, writes, want))
    if not re.search(r'if \(!WIFEXITED\(wstat\)\)\s*return err_child\(\);\s*if \(WEXITSTATUS\(wstat\)\)\s*return 1;[^\n]*\s*return 0;', eb_):
        g.broken.append('%s:auth_backend_execute: wait status evaluation no longer has the shape the model mirrors' % BACK)
    # --- command table rows the AUTH clauses depend on
    rows = command_rows(g)
    names = [r[0] for r in rows]
    def row(n):
        return rows[names.index(n)] if n in names else None
    a, e = row('AUTH'), row('EHLO')
    if a is None or e is None:
        g.broken.append('%s: commands[]: AUTH or EHLO row not found' % QS)
    items.append(('authCmdMask', int(a[1], 16) if a else None, 'commands[]: mask of the AUTH row'))
    items.append(('authCmdFlags', int(a[4]) if a else None, 'commands[]: flags of the AUTH row (1 = takes arguments, 4 = space required)'))
    items.append(('authCmdIndex', names.index('AUTH') if a else None, 'commands[]: index of the AUTH row'))
    items.append(('ehloCmdIndex', names.index('EHLO') if e else None, 'commands[]: index of the EHLO row (a successful EHLO sets comstate = 1 << index as its state field is 0)'))
    items.append(('ehloCmdState', (int(e[3], 0) if e else None), 'commands[]: state field of the EHLO row'))
    items.append(('authCmdStateKeeps', (1 if a and int(a[3], 0) == -1 else 0) if a else None, 'commands[]: 1 iff the state field of the AUTH row is -1 (state unchanged on success)'))
    items.append(('cmdStates', 'def cmdStates : List (Nat × Int) := [%s]' % ', '.join('(%d, %d)' % (i, int(r[3], 0)) for i, r in enumerate(rows)),
                  'commands[]: (index, state field) of every row'))
    return lean_module(items)


GENERATORS = {'Base64.lean': gen_base64, 'Auth.lean': gen_auth}
