"""Gen/Bdat.lean: constants of the BDAT sender (qremote/qrbdat.c:send_bdat, qremote/qremote.c) and
receiver (qsmtpd/data.c:smtp_bdat, the BDAT row of qsmtpd/qsmtpd.c:commands[], CMakeLists.txt)."""
import re
from extract import func_body, lean_module, c_unescape


def _lit(g, rel, func, pattern, what):
    """string literal captured by `pattern` inside `func` -> Lean byte list definition body"""
    t = g.text(rel)
    body = func_body(t, func) if t else None
    m = re.search(pattern, body) if body else None
    if not m:
        g.broken.append('%s:%s: anchor %s not found' % (rel, func, what))
        return None
    return c_unescape(m.group(1))


def _bytes(name, b, comment):
    if b is None:
        return (name, 'def %s : List UInt8 := []' % name, 'BROKEN ANCHOR: ' + comment)
    return (name, 'def %s : List UInt8 := [%s]' % (name, ', '.join(str(x) for x in b)), comment)


def _chunk_setup(g, rel):
    """the statements of setup() that turn control/chunksizeremote into `chunksize`, white space normalised: the value
    handed to send_bdat() is the configured one (pinned text: no harness runs setup(); seeded change c19-m10 clamped it)"""
    t = g.text(rel) or ''
    m = re.search(r'#ifdef CHUNKING\s*(unsigned long chunk;.*?)#endif', t, re.S)
    if not m:
        g.broken.append('%s: anchor chunksize set-up block not found' % rel)
        return ('configuredBdatSetup', 'def configuredBdatSetup : String := ""', 'BROKEN ANCHOR: qremote.c: chunksize set-up block')
    body = re.sub(r'\s+', ' ', m.group(1)).strip().replace('\\', '\\\\').replace('"', '\\"')
    return ('configuredBdatSetup', 'def configuredBdatSetup : String := "%s"' % body, 'qremote.c setup(): from control/chunksizeremote to chunksize')


def bdat_row(g):
    """(mask, state, flags) of the BDAT row of commands[]"""
    t = g.text('qsmtpd/qsmtpd.c') or ''
    m = re.search(r'_C\("BDAT",\s*(0x[0-9a-fA-F]+|\d+),\s*smtp_bdat,\s*(-?\d+),\s*(\d+)\)', t)
    if not m:
        g.broken.append('qsmtpd/qsmtpd.c: BDAT row of commands[] not found')
        return None, None, None
    return int(m.group(1), 0), int(m.group(2)), int(m.group(3))


def table_rows(g):
    """rows of commands[] in order: name -> (index, mask, state, flags); CHUNKING rows included"""
    t = g.text('qsmtpd/qsmtpd.c') or ''
    rows = {}
    for i, m in enumerate(re.finditer(r'^\s*_C\("([^"]+)",\s*(0x[0-9a-fA-F]+|\d+),\s*\w+,\s*(-?(?:0x[0-9a-fA-F]+|\d+)),\s*(\d+)\)', t, re.M)):
        rows[m.group(1)] = (i, int(m.group(2), 0), int(m.group(3), 0), int(m.group(4)))
    return rows


def row_consts(g):
    """what the harness' dispatcher and Bdat.session need of the RSET / MAIL FROM: / RCPT TO: rows:
    masks, and the state the loop moves to after success (state > 0: that value, 0: 1 << index)"""
    rows = table_rows(g)
    out = {}
    for key, name in (('rset', 'RSET'), ('mail', 'MAIL FROM:'), ('rcpt', 'RCPT TO:')):
        if name not in rows:
            g.broken.append('qsmtpd/qsmtpd.c: %s row of commands[] not found' % name)
            out[key + 'Mask'] = out[key + 'State'] = None
            continue
        i, mask, state, flags = rows[name]
        out[key + 'Mask'] = mask
        out[key + 'State'] = state if state > 0 else (1 << i) if state == 0 else None
    return out


def gen_bdat(g):
    tx, rx, qr = 'qremote/qrbdat.c', 'qsmtpd/data.c', 'qremote/qremote.c'
    body = func_body(g.text(tx) or '', 'send_bdat') or ''
    # the look-ahead for the LF behind a CR that ends a chunk: `off < msgsize - N` (N = 0 when written `off < msgsize`)
    m = re.search(r"\(off < msgsize(?: - (\d+))?\) && \(msgdata\[off\] == '\\n'\)", body)
    if m:
        peek = int(m.group(1) or 0)
    else:
        g.broken.append('%s:send_bdat: anchor LF look-ahead behind a final CR not found' % tx)
        peek = None
    lastblit = re.search(r'memcpy\(chunkbuf \+ lenlen - (\d+), " LAST\\r\\n", (\d+)\);', body)
    if not lastblit:
        g.broken.append('%s:send_bdat: anchor " LAST\\r\\n" copy not found' % tx)
    mask, state, flags = bdat_row(g)
    rc = row_consts(g)
    cm = g.text('CMakeLists.txt') or ''
    m2 = re.search(r'set\(INCOMING_CHUNK_SIZE (\d+)\)', cm)
    if not m2:
        g.broken.append('CMakeLists.txt: default INCOMING_CHUNK_SIZE not found')
    items = [
        ('bdatReserved', g.const(tx, 'send_bdat', r'lenlen \+= (\d+);', 'reserved header bytes'), 'send_bdat: lenlen += N ("BDAT " + " LAST" + CRLF)'),
        ('bdatHdrBase', g.const(tx, 'send_bdat', r'\bi = (\d+);\s*/\* "BDAT " \+ CRLF', 'header base length'), 'send_bdat: i = N ("BDAT " + CRLF)'),
        ('bdatLastLen', g.const(tx, 'send_bdat', r'/\* " LAST" \*/\s*i \+= (\d+);', 'LAST length'), 'send_bdat: i += N for " LAST"'),
        ('bdatVerbLen', g.const(tx, 'send_bdat', r'memcpy\(chunkbuf \+ hl, "BDAT ", (\d+)\);', 'verb length'), 'send_bdat: memcpy(chunkbuf + hl, "BDAT ", N)'),
        ('bdatVerbOff', g.const(tx, 'send_bdat', r'ultostr\(len - lenlen, chunkbuf \+ hl \+ (\d+)\);', 'number offset'), 'send_bdat: ultostr(len - lenlen, chunkbuf + hl + N)'),
        ('bdatLastBlitOff', int(lastblit.group(1)) if lastblit else None, 'send_bdat: memcpy(chunkbuf + lenlen - N, " LAST\\r\\n", ..)'),
        ('bdatLastBlitLen', int(lastblit.group(2)) if lastblit else None, 'send_bdat: memcpy(.., " LAST\\r\\n", N)'),
        ('bdatCrOff', g.const(tx, 'send_bdat', r"chunkbuf\[lenlen - (\d+)\] = '\\r';", 'CR position'), "send_bdat: chunkbuf[lenlen - N] = '\\r'"),
        ('bdatLfOff', g.const(tx, 'send_bdat', r"chunkbuf\[lenlen - (\d+)\] = '\\n';", 'LF position'), "send_bdat: chunkbuf[lenlen - N] = '\\n'"),
        ('bdatLoopSlack', g.const(tx, 'send_bdat', r'len \+ linel < chunksize - (\d+)\)', 'inner loop bound'), 'send_bdat: while (.. len + linel < chunksize - N)'),
        ('bdatLfPeekSlack', peek if peek is not None else 'abbrev bdatLfPeekSlack : Nat := 999', "send_bdat: (off < msgsize - N) && (msgdata[off] == '\\n') behind a CR that ends the chunk (N = 0: `off < msgsize`)"),
        ('bdatOkCode', g.const(tx, 'send_bdat', r'checkreply\(" ZD", NULL, 0\) != (\d+)\)', 'expected reply code'), 'send_bdat: reply code that lets the transfer continue'),
        ('chunksizeDefault', g.const(qr, None, r'"chunksizeremote", O_RDONLY \| O_CLOEXEC\), &chunk, (\d+)\)', 'default chunk size'), 'qremote.c: default of control/chunksizeremote'),
        ('chunksizeLimitLog2', g.const(qr, None, r'chunk >= \(\(unsigned long\)1 << (\d+)\)', 'chunk size limit'), 'qremote.c: chunk sizes >= 1 << N are refused'),
        _chunk_setup(g, qr),
        ('bdatState', g.const(rx, 'smtp_bdat', r'comstate (?:!=|=) (0x[0-9a-fA-F]+)', 'BDAT state', count_min=2), 'smtp_bdat: comstate value while a BDAT transfer is open (two sites, equal)'),
        ('bdatArgOff', g.const(rx, 'smtp_bdat', r'linein\.s(?:\[| \+ )(\d+)', 'argument offset', count_min=4), 'smtp_bdat: linein.s[N] / linein.s + N (all sites equal)'),
        ('bdatBufSlack', g.const(rx, 'smtp_bdat', r'net_readbin\(sizeof\(inbuf\) - (\d+), inbuf\)', 'buffer slack'), 'smtp_bdat: net_readbin(sizeof(inbuf) - N, inbuf)'),
        ('chunkReadUnit', g.const(rx, None, r'#define CHUNK_READ_SIZE \(INCOMING_CHUNK_SIZE \* (\d+)\)', 'buffer unit'), 'data.c: CHUNK_READ_SIZE = INCOMING_CHUNK_SIZE * N'),
        ('incomingChunkDefault', int(m2.group(1)) if m2 else None, 'CMakeLists.txt: default INCOMING_CHUNK_SIZE (kiB)'),
        ('bdatMask', mask, 'qsmtpd.c commands[]: states in which BDAT is allowed'),
        ('bdatFlags', flags, 'qsmtpd.c commands[]: flags of BDAT'),
        ('bdatRowStateIsKeep', None if state is None else (1 if state < 0 else 0), 'qsmtpd.c commands[]: 1 iff the BDAT row leaves comstate alone (state < 0)'),
        ('rsetMask', rc['rsetMask'], 'commands[]: states in which RSET is allowed'),
        ('rsetState', rc['rsetState'], 'commands[]: state entered by RSET unless smtp_rset() overrides it'),
        ('mailMask', rc['mailMask'], 'commands[]: states in which MAIL FROM: is allowed'),
        ('mailState', rc['mailState'], 'commands[]: state after a successful MAIL FROM: (1 << row index)'),
        ('rcptMask', rc['rcptMask'], 'commands[]: states in which RCPT TO: is allowed'),
        ('rcptState', rc['rcptState'], 'commands[]: state after a successful RCPT TO: (1 << row index)'),
        ('rsetBdatState', g.const('qsmtpd/commands.c', 'smtp_rset', r'if \(comstate == (0x[0-9a-fA-F]+)\)\s*queue_reset\(\);', 'open BDAT transfer test'), 'smtp_rset: comstate value for which queue_reset() is called'),
        ('rsetHeloState', g.const('qsmtpd/commands.c', 'smtp_rset', r'if \(comstate >= (0x[0-9a-fA-F]+)\) \{\s*freedata\(\);', 'freedata threshold'), 'smtp_rset: freedata() and state (N << esmtp) when comstate >= N'),
        _bytes('rsetReply', _lit(g, 'qsmtpd/commands.c', 'smtp_rset', r'netwrite\("(250 [^"]*)"\)', 'RSET reply'), 'smtp_rset: reply'),
        _bytes('bdatReplyNoRcpt', _lit(g, rx, 'smtp_bdat', r'netwrite\("(554 [^"]*)"\)', '554 reply'), 'smtp_bdat: reply without valid recipients'),
        _bytes('bdatReplyOkPre', _lit(g, rx, 'smtp_bdat', r'bdatmess\[\] = \{"([^"]*)", linein\.s \+ \d+, "[^"]*", NULL\}', '250 reply head'), 'smtp_bdat: bdatmess[0]'),
        _bytes('bdatReplyOkPost', _lit(g, rx, 'smtp_bdat', r'bdatmess\[\] = \{"[^"]*", linein\.s \+ \d+, "([^"]*)", NULL\}', '250 reply tail'), 'smtp_bdat: bdatmess[2]'),
        _bytes('bdatReplyWriteErr', _lit(g, rx, 'smtp_bdat', r'netwrite\("(451 [^"]*)"\)', '451 reply'), 'smtp_bdat: reply after a failed write to the queue'),
    ]
    return lean_module(items)


GENERATORS = {'Bdat.lean': gen_bdat}
