"""Gen/QrData.lean: constants, literals and character tables of qremote/qrdata.c, qremote/mime.c,
include/qremote/qrdata.h and include/mime_chars.h (C06, C07)."""
import re
from extract import func_body, lean_module, c_unescape

F = 'qremote/qrdata.c'
M = 'qremote/mime.c'
LIT = r'"((?:[^"\\]|\\.)*)"'


def _bytes(name, b, comment):
    if b is None:
        return (name, 'def %s : List UInt8 := []  -- BROKEN ANCHOR' % name, 'BROKEN ANCHOR: ' + comment)
    return (name, 'def %s : List UInt8 := [%s]' % (name, ', '.join(str(x) for x in b)), comment)


def _lits(g, rel, func, pattern, what, count=None):
    """all string literals matched by `pattern` (one group = literal text) inside func, in order"""
    t = g.text(rel)
    body = func_body(t, func) if t else None
    if body is None:
        g.broken.append('%s:%s: function not found (anchor %s)' % (rel, func, what))
        return None
    vals = [c_unescape(v) for v in re.findall(pattern, body)]
    if count is not None and len(vals) != count:
        g.broken.append('%s:%s: anchor %s: %d occurrences, expected %d' % (rel, func, what, len(vals), count))
        return None
    return vals


def _enum(g, name):
    t = g.text('include/qremote/qrdata.h') or ''
    m = re.search(r'\b%s\s*=\s*(0x[0-9a-fA-F]+|\d+)\s*,' % name, t)
    if not m:
        g.broken.append('include/qremote/qrdata.h: enum value %s not found' % name)
        return None
    return int(m.group(1), 0)


def _chartable(g, macro):
    t = g.text('include/mime_chars.h') or ''
    m = re.search(r'#define\s+%s\(a\)\s+((?:.*\\\n)*.*)\n' % macro, t)
    if not m:
        g.broken.append('include/mime_chars.h: macro %s not found' % macro)
        return None
    body = m.group(1)
    chars = re.findall(r"\(\(a\) == '((?:\\.|[^'\\]))'\)", body)
    # everything in the macro must be of that form
    rest = re.sub(r"\(\(a\) == '((?:\\.|[^'\\]))'\)", '', body)
    if re.sub(r'[\s|()\\]', '', rest) != '' or not chars:
        g.broken.append('include/mime_chars.h: macro %s has an unexpected shape' % macro)
        return None
    return b''.join(c_unescape(c) for c in chars)


def gen_qrdata(g):
    items = []

    def num(name, rel, func, pat, what, comment=None, **kw):
        items.append((name, g.const(rel, func, pat, what, **kw), comment or ('%s: %s' % (func, what))))

    num('recode8bit', None, None, '', '') if False else None
    for n, e in (('recode8bit', 'recode_8bit'), ('recodeLongLine', 'recode_long_line'), ('recodeLongHeader', 'recode_long_header')):
        items.append((n, _enum(g, e), 'enum recode_reasons: ' + e))
    num('needRecodeMaxLine', F, 'need_recode', r'llen > (\d+)', 'llen > N (every occurrence)')
    num('needRecodeShortRest', F, 'need_recode', r'len - pos < (\d+)', 'len - pos < N')
    num('sendPlainBuf', F, 'send_plain', r'char sendbuf\[(\d+)\];', 'char sendbuf[N]')
    num('sendPlainSlack', F, 'send_plain', r'idx \+ chunk < sizeof\(sendbuf\) - (\d+)', 'idx + chunk < sizeof(sendbuf) - N')
    num('wrapLineBuf', F, 'wrap_line', r'char sendbuf\[(\d+)\];', 'char sendbuf[N]')
    num('wrapLineMin', F, 'wrap_line', r'while \(off >= (\d+)\)', 'while (off >= N)')
    num('wrapLineStart', F, 'wrap_line', r'off_t partoff = (\d+);', 'partoff = N')
    num('wrapLineLateStart', F, 'wrap_line', r'off_t lateoff = (\d+);', 'lateoff = N')
    num('wrapLineLate', F, 'wrap_line', r'lateoff < (\d+)', 'lateoff < N (both occurrences)', count_min=2)
    num('wrapLineShort', F, 'wrap_line', r'partoff < (\d+)', 'partoff < N')
    num('wrapLineFlushSlack', F, 'wrap_line', r'partoff \+ bo >= sizeof\(sendbuf\) - (\d+)', 'partoff + bo >= sizeof(sendbuf) - N')
    num('wrapLineTailSlack', F, 'wrap_line', r'if \(off \+ bo >= sizeof\(sendbuf\) - (\d+)', 'off + bo >= sizeof(sendbuf) - N')
    num('sendWrappedMax', F, 'send_wrapped', r'\*ll < (\d+)', '*ll < N')
    num('recodeQpBuf', F, 'recode_qp', r'char sendbuf\[(\d+)\];', 'char sendbuf[N]')
    num('recodeQpSlack', F, 'recode_qp', r'idx \+ chunk < sizeof\(sendbuf\) - (\d+)', 'idx + chunk < sizeof(sendbuf) - N')
    num('recodeQpSoft', F, 'recode_qp', r'llen > (\d+)', 'llen > N')
    num('boundaryMax', M, 'is_multipart', r'boundary->len > (\d+)', 'boundary->len > N')

    # literals -------------------------------------------------------------------------------
    t = g.text(F) or ''
    body = func_body(t, 'recodeheader') or ''
    m = re.search(r'recodedstr = ' + LIT + r'\s*' + LIT + r' QSMTPVERSION ' + LIT + ';', body)
    if not m:
        g.broken.append('%s:recodeheader: recodedstr literal not found' % F)
        items.append(_bytes('recodedPre', None, 'recodedstr before QSMTPVERSION'))
        items.append(_bytes('recodedPost', None, 'recodedstr after QSMTPVERSION'))
    else:
        items.append(_bytes('recodedPre', c_unescape(m.group(1)) + c_unescape(m.group(2)), 'recodeheader: recodedstr before QSMTPVERSION'))
        items.append(_bytes('recodedPost', c_unescape(m.group(3)), 'recodeheader: recodedstr after QSMTPVERSION'))
    v = _lits(g, F, 'qp_header', r'\*content_type = ' + LIT, 'content_type', 1)
    items.append(_bytes('hdrContentType', v and v[0], 'qp_header: content_type (without the first letter)'))
    v = _lits(g, F, 'qp_header', r'\*content_tr_enc = ' + LIT, 'content_tr_enc', 1)
    items.append(_bytes('hdrContentTrEnc', v and v[0], 'qp_header: content_tr_enc (without the first letter)'))
    v = _lits(g, F, 'qp_header', r'write_status\(' + LIT + r'\)', 'write_status literals', 2)
    w = _lits(g, M, 'is_multipart', r'write_status\(' + LIT + r'\)', 'write_status literals', 4)
    if v is None or w is None:
        items.append(('abortMsgs', 'def abortMsgs : List (List UInt8) := []', 'BROKEN ANCHOR: write_status literals'))
    else:
        items.append(('abortMsgs', 'def abortMsgs : List (List UInt8) := [\n' + ',\n'.join(
            '  [%s]' % ', '.join(str(x) for x in s) for s in v + w) + ']',
            'status texts: qp_header (8bit header, Content-Type syntax), is_multipart (empty, too long, ends in space, invalid character)'))
    v = _lits(g, F, 'send_qp', r'netwrite\(' + LIT + r'\)', 'netwrite literals', 16)
    if v is None:
        items.append(('sendQpLits', 'def sendQpLits : List (List UInt8) := []', 'BROKEN ANCHOR: send_qp netwrite literals'))
    else:
        items.append(('sendQpLits', 'def sendQpLits : List (List UInt8) := [\n' + ',\n'.join(
            '  [%s] /- %d -/' % (', '.join(str(x) for x in s), i) for i, s in enumerate(v)) + ']',
            'send_qp: the literal of every netwrite() call in source order'))
    v = _lits(g, F, 'send_data', r'netwrite\(' + LIT + r'\)', 'netwrite literals', 3)
    items.append(_bytes('termAfterLf', v and v[1], 'send_data: terminator when lastlf'))
    items.append(_bytes('termNoLf', v and v[2], 'send_data: terminator when !lastlf'))
    v = _lits(g, F, 'recode_qp', r'hexchars\[\] = ' + LIT, 'hexchars', 1)
    items.append(_bytes('hexchars', v and v[0], 'recode_qp: hexchars'))
    v = _lits(g, M, 'is_multipart', r'strlen\(' + LIT + r'\)', 'strlen literals', 2)
    items.append(_bytes('mimeMultipart', v and v[0], 'is_multipart: "multipart/"'))
    items.append(_bytes('mimeContentType', v and v[1], 'is_multipart: "Content-Type:" (skipped prefix)'))
    v = _lits(g, M, 'is_multipart', r'\*sboundary = ' + LIT, 'sboundary', 1)
    items.append(_bytes('mimeBoundaryEq', v and v[0], 'is_multipart: "boundary="'))
    items.append(_bytes('tspecials', _chartable(g, 'TSPECIAL'), 'mime_chars.h: TSPECIAL'))
    items.append(_bytes('wspace', _chartable(g, 'WSPACE'), 'mime_chars.h: WSPACE'))
    return lean_module([i for i in items if i])


GENERATORS = {'QrData.lean': gen_qrdata}
