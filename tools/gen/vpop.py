"""Gen/Vpop.lean: constants, literals, errno classes and code-shape flags of
qsmtpd/backends/user_vpopm/vpop.c (vget_dir, qmexists, user_exists), getfile.c and lib/cdb.c.

Everything is located by pattern inside the named function; a pattern that no longer matches is
reported through g.broken (and the emitted value is chosen so that dependent proofs break)."""
import re, subprocess
from extract import func_body, lean_module

F = 'qsmtpd/backends/user_vpopm/vpop.c'
SYS = ['ENOENT', 'EACCES', 'ENOTDIR', 'EISDIR', 'ENFILE', 'EMFILE', 'ENOMEM', 'ENAMETOOLONG', 'EFAULT', 'PATH_MAX', 'NAME_MAX']
_sys = {}


def sysconst():
    """errno numbers and limits of the platform the harness is compiled for (compiler's view)."""
    if not _sys:
        r = subprocess.run(['gcc', '-dM', '-E', '-include', 'errno.h', '-include', 'limits.h', '-'], input='', text=True,
                           stdout=subprocess.PIPE, stderr=subprocess.DEVNULL)
        for m in re.finditer(r'^#define (\w+) (\d+)\s*$', r.stdout, re.M):
            _sys[m.group(1)] = int(m.group(2))
    return _sys


def switches(body):
    """[(switch-expression, [(labels, text)])] for every switch statement of a function body."""
    res = []
    for m in re.finditer(r'switch \(([^)]*)\) \{', body):
        depth, i = 1, m.end()
        while i < len(body) and depth:
            depth += {'{': 1, '}': -1}.get(body[i], 0)
            i += 1
        inner = body[m.end():i - 1]
        groups, labels, text = [], [], ''
        for ln in inner.split('\n'):
            lm = re.match(r'\s*(?:case (\w+)|(default)):\s*$', ln)
            if lm:
                if text.strip():
                    groups.append((labels, text)); labels, text = [], ''
                labels.append(lm.group(1) or 'default')
            else:
                text += ln + '\n'
        if labels:
            groups.append((labels, text))
        res.append((m.group(1), groups))
    return res


def classes(g, where, groups, shapes):
    """shapes: {class name: regex on the group's text}; returns {class: [errno names]}"""
    out = {}
    for labels, text in groups:
        if 'default' in labels:
            continue
        hit = [c for c, rx in shapes.items() if re.search(rx, text)]
        if len(hit) != 1:
            g.broken.append('%s: case %s has an unrecognised body' % (where, '/'.join(labels)))
            continue
        out.setdefault(hit[0], []).extend(labels)
    for c in shapes:
        if c not in out:
            g.broken.append('%s: no case of class %s found' % (where, c))
    return out


def natlist(g, names, what):
    s = sysconst()
    vals = []
    for n in names or []:
        if n == '0':
            vals.append(0)
        elif n in s:
            vals.append(s[n])
        else:
            g.broken.append('%s: unknown errno name %s' % (what, n))
    return '[%s]' % ', '.join(str(v) for v in vals)


def bytelist(b):
    return '[%s]' % ', '.join(str(x) for x in b)


def gen_vpop(g):
    s = sysconst()
    t = g.text(F) or ''
    items = []
    for n in SYS:
        if n not in s:
            g.broken.append('system headers: %s not defined' % n)
        items.append(('sys' + n, s.get(n), '<errno.h>/<limits.h>: ' + n))
    items.append(('edone', g.define('include/qsmtpd/qsmtpd.h', 'EDONE'), 'include/qsmtpd/qsmtpd.h: EDONE'))
    items.append(('cdbKeySize', g.const(F, 'vget_dir', r'char cdb_key\[(\d+)\];', 'cdb_key size'), 'vget_dir: char cdb_key[N]'))
    items.append(('cdbHashStart', g.define('lib/cdb.c', 'CDB_HASHSTART'), 'lib/cdb.c: CDB_HASHSTART'))
    for nm in ('CONFIG_USER', 'CONFIG_DOMAIN', 'CONFIG_GLOBAL'):
        items.append(('cfg' + nm[7:].capitalize(), g.const('include/qsmtpd/userfilters.h', None, nm + r' = (\d+)', nm), 'userfilters.h: ' + nm))

    # ---- vget_dir -------------------------------------------------------------------------
    vb = func_body(t, 'vget_dir') or ''
    if not re.search(r"cdb_key\[0\] = '!';\s*memcpy\(cdb_key \+ 1, domain, cdbkeylen - 2\);\s*cdb_key\[cdbkeylen - 1\] = '-';", vb) \
            or not re.search(r'cdbkeylen = strlen\(domain\) \+ 2;\s*if \(cdbkeylen \+ 1 >= sizeof\(cdb_key\)\)\s*return -EFAULT;', vb):
        g.broken.append(F + ':vget_dir: key construction "!" domain "-" / length check not found')
    if not re.search(r'for \(int i = 3; i > 0; i--\)\s*cdb_buf \+= strlen\(cdb_buf\) \+ 1;', vb):
        g.broken.append(F + ':vget_dir: value layout (skip 3 fields) not found')
    sw = switches(vb)
    if len(sw) != 2:
        g.broken.append(F + ':vget_dir: expected 2 switch statements, found %d' % len(sw))
        sw = (sw + [('', []), ('', [])])[:2]
    c1 = classes(g, F + ':vget_dir open', sw[0][1], {'absent': r'return 0;', 'resource': r'return -ENOMEM;'})
    c2 = classes(g, F + ':vget_dir seek', sw[1][1], {'absent': r'return 0;', 'resource': r'return -ENOMEM;'})
    for nm, c, k in (('vgetOpenAbsent', c1, 'absent'), ('vgetOpenResource', c1, 'resource'),
                     ('vgetSeekAbsent', c2, 'absent'), ('vgetSeekResource', c2, 'resource')):
        items.append((nm, 'abbrev %s : List Nat := %s' % (nm, natlist(g, c.get(k), nm)), 'vget_dir: errno values of class ' + k))

    # ---- qmexists -------------------------------------------------------------------------
    qb = func_body(t, 'qmexists') or ''
    m = re.search(r'static const char dotqm\[\] = "([^"\\]*)";', qb)
    if not m:
        g.broken.append(F + ':qmexists: dotqm literal not found')
    items.append(('dotqm', 'abbrev dotqm : List UInt8 := %s' % bytelist((m.group(1) if m else '').encode()), 'qmexists: dotqm[] = "%s"' % (m.group(1) if m else '?')))
    m = re.search(r'char filetmp\[(\w+)\];', qb)
    size = None
    if not m:
        g.broken.append(F + ':qmexists: filetmp declaration not found')
    else:
        size = int(m.group(1)) if m.group(1).isdigit() else s.get(m.group(1))
        if size is None:
            g.broken.append(F + ':qmexists: size %s of filetmp unknown' % m.group(1))
    items.append(('filetmpSize', size, 'qmexists: sizeof(filetmp)'))
    m = re.search(r'if \(l \+ (\d+) >= sizeof\(filetmp\)\)\s*return -ENOENT;\s*memcpy\(filetmp \+ l, "([^"\\]*)", (\d+)\);\s*l \+= (\d+);', qb)
    if not m or not (int(m.group(1)) == int(m.group(3)) == int(m.group(4)) == len(m.group(2))):
        g.broken.append(F + ':qmexists: "default" suffix block not found or inconsistent lengths')
    items.append(('qmDefault', 'abbrev qmDefault : List UInt8 := %s' % bytelist((m.group(2) if m else '').encode()), 'qmexists: the "default" suffix'))
    for rx, what in ((r'if \(l \+ len >= sizeof\(filetmp\)\)\s*return -ENOENT;\s*memcpy\(filetmp \+ l, suff1, len\);', 'suffix length check'),
                     (r"while \(\(p = memchr\(filetmp \+ l, '\.', len\)\) != NULL\)\s*\*p = ':';", 'dots to colons'),
                     (r"if \(l \+ 1 >= sizeof\(filetmp\)\)\s*return -ENOENT;\s*\*\(filetmp \+ l\) = '-';", 'dash before default'),
                     (r'tmpfd = openat\(domaindirfd, filetmp, O_RDONLY \| O_CLOEXEC\);', 'openat relative to the domain directory')):
        if not re.search(rx, qb):
            g.broken.append(F + ':qmexists: %s not found' % what)
    sw = switches(qb)
    qc = classes(g, F + ':qmexists', sw[0][1] if sw else [], {'resource': r'return -ENOMEM;', 'assume': r'return 1;', 'absent': r'return 0;'})
    for nm, k in (('qmResource', 'resource'), ('qmAssume', 'assume'), ('qmAbsent', 'absent')):
        items.append((nm, 'abbrev %s : List Nat := %s' % (nm, natlist(g, qc.get(k), nm)), 'qmexists: errno values of class ' + k))

    # ---- user_exists ----------------------------------------------------------------------
    ub = func_body(t, 'user_exists') or ''
    head = ub.split('vget_dir(')[0]
    if not re.search(r"if \(memchr\(localpart->s, '/', localpart->len\)\)\s*return 0;", head):
        g.broken.append(F + ":user_exists: refusal of '/' not found before vget_dir()")
    dots = re.search(r"if \(\(\(localpart->len == 1\) \|\| \(localpart->len == 2\)\) &&\s*\(localpart->s\[0\] == '\.'\) && "
                     r"\(localpart->s\[localpart->len - 1\] == '\.'\)\)\s*return 0;", head)
    if not dots and "'.'" in head:
        g.broken.append(F + ":user_exists: unrecognised test involving '.' before vget_dir()")
    items.append(('ueRefusesDotNames', 'abbrev ueRefusesDotNames : Bool := %s' % ('true' if dots else 'false'),
                  'user_exists: local parts "." and ".." are refused before any lookup'))
    bounded = re.search(r"p = memchr\(p \+ 1, '-', localpart->len - \(p \+ 1 - localpart->s\)\);", ub)
    unbounded = re.search(r"p = strchr\(p \+ 1, '-'\);", ub)
    if bool(bounded) == bool(unbounded) or not re.search(r"p = memchr\(localpart->s, '-', localpart->len\);\s*while \(p\) \{", ub):
        g.broken.append(F + ':user_exists: dash prefix loop not recognised')
    items.append(('ueDashScanBounded', 'abbrev ueDashScanBounded : Bool := %s' % ('true' if bounded else 'false'),
                  'user_exists: the search for the next dash stays inside the local part (memchr) instead of running to the NUL of the address (strchr)'))
    sw = switches(ub)
    dc = classes(g, F + ':user_exists domain directory', sw[0][1] if sw else [],
                 {'resource': r'userconf_free\(ds\);\s*return -res;', 'absent': r'userconf_free\(ds\);\s*return 0;', 'assume': r'return 1;'})
    for nm, k in (('ueDomResource', 'resource'), ('ueDomAbsent', 'absent'), ('ueDomAssume', 'assume')):
        items.append((nm, 'abbrev %s : List Nat := %s' % (nm, natlist(g, dc.get(k), nm)), 'user_exists: get_dirfd(domain path) errno values of class ' + k))
    m = re.search(r'if \(ds->userdirfd >= 0\) \{\s*return 1;\s*\} else if \(((?:\(errno != \w+\)(?: && )?)+)\) \{', ub)
    soft = re.findall(r'errno != (\w+)', m.group(1)) if m else None
    if not soft:
        g.broken.append(F + ':user_exists: user directory errno test not found')
    items.append(('ueUserSoft', 'abbrev ueUserSoft : List Nat := %s' % natlist(g, soft, 'ueUserSoft'),
                  'user_exists: get_dirfd(user directory) errno values that only mean "no such directory"'))
    for rx, what in ((r'res = qmexists\(ds->domaindirfd, localpart->s, localpart->len, 2, NULL\);\s*(?:/\*.*?\*/\s*)?if \(res == 0\)\s*'
                      r'res = qmexists\(ds->domaindirfd, localpart->s, localpart->len, 3, NULL\);', 'the .qmail-local / .qmail-local-default probes'),
                     (r'res = qmexists\(ds->domaindirfd, localpart->s, \(p - localpart->s\), 3, NULL\);\s*if \(res > 0\) \{\s*return 4;', 'the prefix probe'),
                     (r'res = qmexists\(ds->domaindirfd, NULL, 0, 1, &fd\);', 'the .qmail-default probe'),
                     (r'char buff\[2\*strlen\(vpopbounce\)\+1\];', 'the bounce line buffer'),
                     (r'if \(strcmp\(buff, vpopbounce\) == 0\) \{\s*userconf_free\(ds\);\s*return 0;\s*\} else \{\s*return 2;', 'the bounce line comparison'),
                     (r'ds->userdirfd = get_dirfd\(ds->domaindirfd, fnbuf\);', 'the user directory probe relative to the domain directory')):
        if not re.search(rx, ub, re.S):
            g.broken.append(F + ':user_exists: %s not found' % what)
    return lean_module(items)


GENERATORS = {'Vpop.lean': gen_vpop}
