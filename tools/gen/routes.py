"""Gen/Routes.lean: data of qremote/smtproutes.c, qremote/conn.c, qremote/conn_mx.c, qremote/qremote.c,
include/qdns.h, include/qremote/greeting.h that the C20 models and theorems mention."""
import re
from extract import func_body, lean_module, c_unescape


def _bytes(b):
    return '[' + ', '.join(str(x) for x in b) + ']'


def _tags(g):
    t = g.text('qremote/smtproutes.c') or ''
    m = re.search(r'static const char \*tags\[\]\s*=\s*\{(.*?)\};', t, re.S)
    if not m:
        g.broken.append('qremote/smtproutes.c: tags[] table not found')
        return None
    body = m.group(1)
    names = re.findall(r'"((?:[^"\\]|\\.)*)"', body)
    if not re.search(r',\s*NULL\s*$', body.strip()) or len(names) < 1:
        g.broken.append('qremote/smtproutes.c: tags[] table is not a NULL terminated list of literals')
        return None
    return [c_unescape(n) for n in names]


def _switch_order(g):
    """the case labels of the switch over the tag index in smtproute() must be 0..n-1 in this
    order with the known meaning (relay, port, clientcert, clientkey, outgoingip, outgoingip6)."""
    body = func_body(g.text('qremote/smtproutes.c') or '', 'smtproute') or ''
    want = [(0, r'hv = v;'), (1, r'pv = v;'), (2, r'clientcertbuf = strdup\(v\)'), (3, r'clientkeybuf = strdup\(v\)'),
            (4, r'inet_pton_v4mapped\(v, &outgoingip\)'), (5, r'inet_pton\(AF_INET6, v, &outgoingip6\)')]
    labels = [body.find('case %d:' % idx) for idx, _ in want] + [body.find('default:', body.find('case %d:' % want[-1][0]))]
    for k, (idx, pat) in enumerate(want):
        seg = body[labels[k]:labels[k + 1]] if labels[k] >= 0 and labels[k + 1] > labels[k] else ''
        if not re.search(pat, seg):
            g.broken.append('qremote/smtproutes.c:smtproute: case %d of the tag switch no longer has the modelled meaning' % idx)
            return None
    return len(want)


def _enum(g, rel, name):
    t = g.text(rel) or ''
    m = re.search(r'\b%s\s*=\s*(0x[0-9a-fA-F]+|\d+)' % re.escape(name), t)
    if not m:
        g.broken.append('%s: enumerator %s not found' % (rel, name))
        return None
    return int(m.group(1), 0)


def _main_sequence(g):
    """qremote.c:main — the local-address filter runs iff targetport == N, between getmxlist() and
    sortmx(), and connect_mx() comes last."""
    body = func_body(g.text('qremote/qremote.c') or '', 'main') or ''
    m = re.search(r'getmxlist\(argv\[1\], &mx\);\s*if \(targetport == (\d+)\) \{\s*mx = filter_my_ips\(mx\);\s*if \(mx == NULL\) \{'
                  r'.*?net_conn_shutdown\(shutdown_abort\);\s*\}\s*\}\s*sortmx\(&mx\);\s*i = connect_mx\(mx, &outgoingip, &outgoingip6\);',
                  body, re.S)
    if not m:
        g.broken.append('qremote/qremote.c:main: sequence getmxlist / filter_my_ips on port N / sortmx / connect_mx not found')
        return None
    return int(m.group(1))


def _greet_switch_exits(g):
    """connect_mx(): number of net_conn_shutdown() calls inside the switch over the error of the first
    greeting line (0: every failed greeting moves on to the next MX)."""
    body = func_body(g.text('qremote/conn_mx.c') or '', 'connect_mx') or ''
    m = re.search(r'int s = netget\(0\);\s*if \(s < 0\) \{\s*switch \(-s\) \{(.*?)\n\t\t\t\}\n\t\t\}', body, re.S)
    if not m or 'case ECONNRESET:' not in m.group(1) or 'default:' not in m.group(1):
        g.broken.append('qremote/conn_mx.c:connect_mx: switch over the error of the first greeting line not found')
        return None
    sw = re.sub(r'/\*.*?\*/', '', m.group(1), flags=re.S)
    labels = re.findall(r'(?:case (\w+)|default):', sw)
    if labels != ['ECONNRESET', 'ETIMEDOUT', 'EINVAL', '']:
        g.broken.append('qremote/conn_mx.c:connect_mx: greeting error switch has labels %s (model knows ECONNRESET, ETIMEDOUT, EINVAL, default)' % labels)
        return None
    return len(re.findall(r'net_conn_shutdown\(', sw)) + len(re.findall(r'\bexit\(', sw))


def gen_routes(g):
    f = 'qremote/smtproutes.c'
    tags = _tags(g)
    ntag = _switch_order(g)
    if tags is not None and ntag is not None and len(tags) != ntag:
        g.broken.append('%s: %d tags but %d modelled switch cases' % (f, len(tags), ntag))
    tagdef = 'def routeTags : List (List UInt8) := [' + ', '.join(_bytes(t) for t in (tags or [])) + ']'
    dflt = g.text(f) and re.search(r'fn = "([^"]*)";\s*curpart = NULL;', g.text(f))
    if not dflt:
        g.broken.append('%s:smtproute: name of the default file not found' % f)
    items = [
        ('routeTags', tagdef, 'qremote/smtproutes.c: tags[] (key names of a smtproutes.d file, in switch order)'),
        ('routeDefaultName', 'def routeDefaultName : List UInt8 := ' + _bytes(c_unescape(dflt.group(1)) if dflt else b''),
         'smtproute: file tried after all wildcard names'),
        ('routeDefaultPort', g.const(f, 'smtproute', r'\*targetport = (\d+);', 'default port'), 'smtproute: *targetport = N before any lookup'),
        ('routeNoPortPort', g.const(f, 'parse_route_params', r'\*targetport = (\d+);', 'port without port field'), 'parse_route_params: port when no port is given'),
        ('routePortLimit', g.const(f, 'parse_route_params', r'\*targetport >= (\d+)\)', 'port upper bound'), 'parse_route_params: ports >= N are rejected'),
        ('routeNameBuf', _fnbuf(g), 'smtproute: sizeof(fnbuf) = DOMAINNAME_MAX + 2'),
        ('mxPrioImplicit', _enum(g, 'include/qdns.h', 'MX_PRIORITY_IMPLICIT'), 'include/qdns.h'),
        ('mxPrioUsed', _enum(g, 'include/qdns.h', 'MX_PRIORITY_USED'), 'include/qdns.h'),
        ('mxPrioCurrent', _enum(g, 'include/qdns.h', 'MX_PRIORITY_CURRENT'), 'include/qdns.h'),
        ('tryconnFreshMax', g.const('qremote/conn.c', 'tryconn', r'thisip->priority <= (\d+)\)', 'fresh entry bound'), 'tryconn: entries with priority <= N are still to be tried'),
        ('filterPort', _main_sequence(g), 'qremote.c:main: filter_my_ips() runs iff targetport == N (between getmxlist and sortmx; connect_mx last)'),
        ('esmtpStarttls', _enum(g, 'include/qremote/greeting.h', 'esmtp_starttls'), 'include/qremote/greeting.h'),
        ('greetSwitchExits', _greet_switch_exits(g), 'connect_mx: exits inside the switch over the error of the first greeting line (0 = always next MX)'),
        ('greetingOk', g.const('qremote/conn_mx.c', 'connect_mx', r'\(s != (\d+)\) \|\| \(flagerr != 0\)', 'greeting code'), 'connect_mx: the only accepted greeting code'),
    ]
    return lean_module(items)


def _fnbuf(g):
    t = g.text('qremote/smtproutes.c') or ''
    m = re.search(r'char fnbuf\[DOMAINNAME_MAX \+ (\d+)\];', t)
    d = g.define('include/qdns.h', 'DOMAINNAME_MAX')
    if not m or d is None:
        g.broken.append('qremote/smtproutes.c:smtproute: fnbuf declaration not found')
        return None
    return d + int(m.group(1))


GENERATORS = {'Routes.lean': gen_routes}
