"""Gen/Session.lean: the commands[] table of qsmtpd/qsmtpd.c and the session limits."""
import re
from extract import lean_module

FUNCS = {'smtp_noop': 'noop', 'smtp_quit': 'quit', 'smtp_rset': 'rset', 'smtp_helo': 'helo', 'smtp_ehlo': 'ehlo',
         'smtp_from': 'mail', 'smtp_rcpt': 'rcpt', 'smtp_data': 'data', 'smtp_starttls': 'starttls', 'smtp_auth': 'auth',
         'smtp_vrfy': 'vrfy', 'smtp_bdat': 'bdat', 'http_post': 'post'}


def strip_ifdef(text, macro, defined):
    """drop (or keep) #ifdef <macro> ... #endif blocks (no nesting in this table)"""
    out, skip = [], False
    for line in text.split('\n'):
        if re.match(r'\s*#ifdef\s+' + macro + r'\b', line):
            skip = not defined
            continue
        if re.match(r'\s*#endif', line) and (skip or defined):
            skip = False
            continue
        if not skip:
            out.append(line)
    return '\n'.join(out)


def gen_session(g):
    t = g.text('qsmtpd/qsmtpd.c') or ''
    m = re.search(r'static struct smtpcomm commands\[\] = \{(.*?)\n\};', t, re.S)
    rows = []
    if not m:
        g.broken.append('qsmtpd/qsmtpd.c: commands[] table not found')
    else:
        body = strip_ifdef(m.group(1), 'CHUNKING', False)     # baseline build: CHUNKING off
        for r in re.finditer(r'_C\("([^"]*)",\s*(0x[0-9a-fA-F]+),\s*(\w+),\s*(-?(?:0x)?[0-9a-fA-F]+),\s*(\d+)\)', body):
            name, mask, func, state, flags = r.groups()
            if func not in FUNCS:
                g.broken.append('qsmtpd/qsmtpd.c: commands[] uses unknown function %s' % func)
                continue
            rows.append((name, int(mask, 16), FUNCS[func], int(state, 0), int(flags)))
        if len(rows) < 10:
            g.broken.append('qsmtpd/qsmtpd.c: only %d rows of commands[] parsed' % len(rows))
    mm = re.search(r'#define _C\(c, m, f, s, o\) \{ \.name = c, \.len = sizeof\(c\) - 1, \.mask = m, \.func = f, \.state = s, \.flags = o \}', t)
    if not mm:
        g.broken.append('qsmtpd/qsmtpd.c: _C() macro changed its meaning')
    tab = 'inductive Func where\n  | noop | quit | rset | helo | ehlo | mail | rcpt | data | starttls | auth | vrfy | bdat | post\n  deriving Repr, DecidableEq, Inhabited\n\n'
    tab += 'structure Row where\n  name : List UInt8\n  mask : Nat\n  func : Func\n  state : Int\n  flags : Nat\n  deriving Repr\n\n'
    tab += 'def commands : List Row := [\n' + ',\n'.join(
        '  { name := [%s], mask := 0x%x, func := .%s, state := %d, flags := %d } /- %s -/' % (', '.join(str(b) for b in n.encode()), mk, f, st, fl, n)
        for n, mk, f, st, fl in rows) + ']'
    items = [
        ('commands', tab, 'qsmtpd/qsmtpd.c: static struct smtpcomm commands[] (rows inside #ifdef CHUNKING omitted: baseline build)'),
        ('maxRcpt', g.define('include/qsmtpd/commands.h', 'MAXRCPT'), 'include/qsmtpd/commands.h: MAXRCPT'),
        ('maxBadCmds', g.define('qsmtpd/syntax.c', 'MAXBADCMDS'), 'qsmtpd/syntax.c: MAXBADCMDS'),
        ('maxHops', g.define('qsmtpd/data.c', 'MAXHOPS'), 'qsmtpd/data.c: MAXHOPS'),
        ('queuePermLo', g.const('qsmtpd/queue.c', 'queue_result', r'\(exitcode >= (\d+)\) && \(exitcode <= \d+\)', 'permanent exit code window'), 'queue_result: exit codes >= N are permanent'),
        ('queuePermHi', g.const('qsmtpd/queue.c', 'queue_result', r'\(exitcode >= \d+\) && \(exitcode <= (\d+)\)', 'permanent exit code window'), 'queue_result: exit codes <= N are permanent'),
        ('cmdLineMax', g.const('qsmtpd/qsmtpd.c', 'smtploop', r'\(linein\.len > (\d+)\)', 'command line limit'), 'smtploop: linein.len > N is too long unless flag 2'),
    ]
    return lean_module(items)


GENERATORS = {'Session.lean': gen_session}
