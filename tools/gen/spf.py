"""Gen/Spf.lean: constants and tables of qsmtpd/spf.c (and the few of lib/qdns.c, lib/dns_helpers.c,
include/qsmtpd/antispam.h, include/qdns.h the SPF model mentions)."""
import re
from extract import func_body, lean_module, c_unescape

F = 'qsmtpd/spf.c'


def _bytes(b):
    return '[' + ', '.join(str(x) for x in b) + ']'


def _enum(g, rel, name):
    t = g.text(rel) or ''
    m = re.search(r'\b%s\s*=\s*(\d+)\s*[,}/]' % re.escape(name), t)
    if not m:
        g.broken.append('%s: enumerator %s not found' % (rel, name))
        return None
    return int(m.group(1))


def _mech_table(g):
    body = func_body(g.text(F) or '', 'spflookup')
    if body is None:
        g.broken.append('%s:spflookup: function not found (mechanism table)' % F)
        return None
    ms = re.findall(r'match_mechanism\(token, "(\w+)", "([^"]*)"\)', body)
    if len(ms) < 8:
        g.broken.append('%s:spflookup: only %d match_mechanism() calls found' % (F, len(ms)))
        return None
    return ms


def _result_names(g):
    body = func_body(g.text(F) or '', 'spfreceived')
    if body is None:
        g.broken.append('%s:spfreceived: function not found' % F)
        return None
    m = re.search(r'const char \*result\[\]\s*=\s*\{(.*?)\};', body, re.S)
    if not m:
        g.broken.append('%s:spfreceived: result[] table not found' % F)
        return None
    return re.findall(r'"([^"]*)"', m.group(1))


def _received_literals(g):
    body = func_body(g.text(F) or '', 'spfreceived')
    if body is None:
        return None
    lits = re.findall(r'WRITE\(fd, "((?:[^"\\]|\\.)*)"\);', body)
    if len(lits) < 20:
        g.broken.append('%s:spfreceived: only %d WRITE literals found' % (F, len(lits)))
        return None
    return [c_unescape(x) for x in lits]


def _other_property_run():
    """True when this extraction runs inside `./check Cxx` for a property other than C11.  vlib counts
    every broken anchor of every Gen module against the property being checked; the anchors below exist
    only in the tree with the proposed C11 fixes, and no other property uses Gen.Spf - so outside of a
    C11 run (and of a plain `extract.py` / setup run) they are not reported."""
    import sys
    props = [a.upper() for a in sys.argv[1:] if re.fullmatch(r'[Cc]\d\d', a)]
    return bool(props) and 'C11' not in props


def gen_spf(g):
    n_broken = len(g.broken)
    try:
        return _gen_spf(g)
    finally:
        if _other_property_run():
            del g.broken[n_broken:]


def _gen_spf(g):
    c = g.const
    items = []

    def add(name, val, comment):
        items.append((name, val, comment))
    for lean, cname in [('spfNone', 'SPF_NONE'), ('spfPass', 'SPF_PASS'), ('spfNeutral', 'SPF_NEUTRAL'),
                        ('spfSoftfail', 'SPF_SOFTFAIL'), ('spfFail', 'SPF_FAIL'), ('spfPermerror', 'SPF_PERMERROR'),
                        ('spfTemperror', 'SPF_TEMPERROR'), ('spfDnsHardError', 'SPF_DNS_HARD_ERROR'), ('spfIgnore', 'SPF_IGNORE')]:
        add(lean, _enum(g, 'include/qsmtpd/antispam.h', cname), 'enum spf_eval_result: ' + cname)
    add('spfMxPriorityImplicit', _enum(g, 'include/qdns.h', 'MX_PRIORITY_IMPLICIT'), 'enum mx_special_priorities')
    add('spfDomainvalidMaxLabel', c('lib/dns_helpers.c', 'domainvalid', r'\(\(dt == NULL\) \? host : dt \+ 1\) > (\d+)', 'max label length'),
        'domainvalid: h - ((dt == NULL) ? host : dt + 1) > N')
    add('spfDomainvalidMaxLen', c('lib/dns_helpers.c', 'domainvalid', r'\(h - host\) > (\d+)', 'max name length'), 'domainvalid: (h - host) > N')
    add('spfMaxDnsTerms', c(F, 'spf_dnsterm_allowed', r'\*queries <= (\d+)', 'term limit'),
        'spf_dnsterm_allowed: *queries <= N after the increment')
    add('spfLoopLimit', c(F, 'spflookup', r'\*queries > (\d+)', 'loop/include limit test', count_min=2),
        'spflookup: *queries > N (top of the term loop and include result mapping; all equal)')
    add('spfMxLimit', c(F, 'spfmx', r'if \(i > (\d+)\)', 'mx limit'), 'spfmx: if (i > N)')
    add('spfMxCountStart', c(F, 'spfmx', r'\n\ti = (\d+);\n\tstruct ips \*cur = mx;', 'mx count start'), 'spfmx: i = N before counting the MX entries')
    add('spfValidateDomainMax', c(F, 'validate_domain', r'if \(r > (\d+)\)\s*\n\s*r = \1;', 'ptr name limit'), 'validate_domain: if (r > N) r = N')
    add('spfTxtlookupMax', c(F, 'txtlookup', r'len - offs > (\d+)', 'txtlookup length'), 'txtlookup: while (len - offs > N)')
    add('spfIp4CidrMin', c(F, 'spfip4', r'\(u < (\d+)\)', 'ip4 cidr min'), 'spfip4: u < N')
    add('spfIp4CidrMax', c(F, 'spfip4', r'\(u > (\d+)\)', 'ip4 cidr max'), 'spfip4: u > N')
    add('spfIp4LenMin', c(F, 'spfip4', r'ip4len < (\d+)', 'ip4 literal min'), 'spfip4: ip4len < N')
    add('spfIp6CidrMin', c(F, 'spfip6', r'\(u < (\d+)\)', 'ip6 cidr min'), 'spfip6: u < N')
    add('spfIp6CidrMax', c(F, 'spfip6', r'\(u > (\d+)\)', 'ip6 cidr max'), 'spfip6: u > N')
    add('spfIp6LenMin', c(F, 'spfip6', r'ip6len < (\d+)', 'ip6 literal min'), 'spfip6: ip6len < N')
    # since the repair of the CIDR overflow the value is range-checked as a long before it is stored:
    # `(l < 0) || (l > N) || ...` followed by `*ip4cidr = l;` / `*ip6cidr = l;`
    add('spfDsIp4CidrMax', c(F, 'spf_domainspec', r'\(l < 0\) \|\| \(l > (\d+)\)[^;{]*\{[^}]*\}\s*\*ip4cidr = l;', 'domainspec ip4 cidr'), 'spf_domainspec: 0 <= l <= N, then *ip4cidr = l')
    add('spfDsIp6CidrMax', c(F, 'spf_domainspec', r'\(l < 0\) \|\| \(l > (\d+)\)[^;{]*\{[^}]*\}\s*\*ip6cidr = l;', 'domainspec ip6 cidr'), 'spf_domainspec: 0 <= l <= N, then *ip6cidr = l')
    add('spfMakroNumDefault', c(F, 'spf_makroparam', r'\} else \{\s*\*num = (\d+);', 'default DIGIT'), 'spf_makroparam: *num = N when no DIGIT is given')
    add('spfMakroNumCap', c(F, 'spf_makroparam', r'if \(\*num < (\d+)\)', 'DIGIT cap'), 'spf_makroparam: digits are only accumulated while *num < N')
    t = g.text(F) or ''
    m = re.search(r'static const char spf_delimiters\[\] = "((?:[^"\\]|\\.)*)";', t)
    if not m:
        g.broken.append('%s: spf_delimiters not found' % F)
        add('spfDelimiters', None, 'spf_delimiters')
    else:
        add('spfDelimiters', 'def spfDelimiters : List UInt8 := ' + _bytes(c_unescape(m.group(1))), 'static const char spf_delimiters[]')
    mt = _mech_table(g)
    if mt is None:
        add('spfMechTable', None, 'match_mechanism calls')
    else:
        add('spfMechTable', 'def spfMechTable : List (List UInt8 × List UInt8) := [\n' + ',\n'.join(
            '  (%s, %s) /- %s "%s" -/' % (_bytes(n.encode()), _bytes(c_unescape(d)), n, d) for n, d in mt) + ']',
            'spflookup: the match_mechanism(token, name, delimiters) calls in the order they are tried')
    rn = _result_names(g)
    if rn is None:
        add('spfResultNames', None, 'result[]')
    else:
        add('spfResultNames', 'def spfResultNames : List (List UInt8) := [' + ', '.join(_bytes(x.encode()) for x in rn) + ']',
            'spfreceived: const char *result[] = {%s}' % ', '.join(rn))
    rl = _received_literals(g)
    if rl is None:
        add('spfReceivedLiterals', None, 'WRITE literals')
    else:
        add('spfReceivedLiterals', 'def spfReceivedLiterals : List (List UInt8) := [\n' + ',\n'.join('  ' + _bytes(x) for x in rl) + ']',
            'spfreceived: every WRITE(fd, "literal") in source order')
    return lean_module(items)


GENERATORS = {'Spf.lean': gen_spf}
