"""Gen/QrProto.lean: the data of Qremote's delivery engine (property C04).

Everything the model QsmtpModel.QrProto or a C04 theorem mentions that is *data* in the C sources:
status-code class bounds, the report letter strings and masks passed to checkreply(), every
status text, every command fragment, the size of netmsg[] and the pipelining batch rule, the
ESMTP extension table and bits, the DATA go-ahead code.  Each anchor is located by pattern inside
the named function; a pattern that no longer matches is reported as a broken tie.
"""
import re
from extract import func_body, lean_module, c_unescape

LIT = r'"((?:[^"\\]|\\.)*)"'


def lean_bytes(b):
    return '[' + ', '.join(str(x) for x in b) + ']'


def _body(g, rel, fn):
    t = g.text(rel)
    if t is None:
        return ''
    b = func_body(t, fn)
    if b is None:
        g.broken.append('%s:%s: function not found' % (rel, fn))
        return ''
    return b


def _one(g, rel, fn, body, pattern, what, group=1, flags=0):
    m = re.findall(pattern, body, flags)
    if len(m) != 1:
        g.broken.append('%s:%s: anchor %s found %d times (/%s/)' % (rel, fn, what, len(m), pattern))
        return None
    v = m[0]
    if isinstance(v, tuple):
        v = v[group - 1]
    return v


def gen_qrproto(g):
    items = []

    def s(name, lit, comment):
        if lit is None:
            items.append((name, 'def %s : List UInt8 := [0] -- BROKEN ANCHOR' % name, 'BROKEN ANCHOR: ' + comment))
        else:
            items.append((name, 'def %s : List UInt8 := %s' % (name, lean_bytes(c_unescape(lit))), comment + ': ' + repr(lit)))

    def n(name, val, comment):
        items.append((name, None if val is None else int(val, 0) if isinstance(val, str) else val, comment))

    # ---- status code classes (non-pedantic branch; the option is OFF in the baseline build) ----
    f = 'qremote/statuscodes.h.tmpl'
    t = g.text(f) or ''
    m = re.search(r'#else[^\n]*\n(.*?)#endif', t, re.S)
    branch = m.group(1) if m else ''
    opt = g.text('qremote/CMakeLists.txt') or ''
    if not re.search(r'option\(QREMOTE_PEDANTIC_STATUS_CODES\s+"[^"]*"\s+OFF\)', opt):
        g.broken.append('qremote/CMakeLists.txt: QREMOTE_PEDANTIC_STATUS_CODES is no longer an option defaulting to OFF')
    for nm, lean in (('SUCCESS_MINIMUM_STATUS', 'successMin'), ('SUCCESS_MAXIMUM_STATUS', 'successMax'),
                     ('TEMP_MINIMUM_STATUS', 'tempMin'), ('TEMP_MAXIMUM_STATUS', 'tempMax')):
        mm = re.findall(r'#define\s+%s\s+(\d+)' % nm, branch)
        if len(mm) != 1:
            g.broken.append('%s: %s not found in the non-pedantic branch' % (f, nm))
        n(lean, mm[0] if len(mm) == 1 else None, 'statuscodes.h: ' + nm)

    # ---- reply.c ------------------------------------------------------------------------
    f = 'qremote/reply.c'
    b = _body(g, f, 'netget')
    s('stSyntax', _one(g, f, 'netget', b, r'write_status\(' + LIT + r'\)', 'syntax error status'), 'netget: status for an unparsable reply')
    s('stErrnoPrefix', _one(g, f, 'netget', b, r'tmp\[\]\s*=\s*\{\s*' + LIT + r',\s*strerror\(errno\)', 'errno status prefix'), 'netget: prefix of the strerror status')
    mm = re.search(r"r >= (\d+)\) && \(r <= (\d+)\) && \(q >= (\d+)\) && \(q <= (\d+)\)", b)
    if not mm:
        g.broken.append('%s:netget: digit range test not found' % f)
    n('codeFirstMin', mm.group(1) if mm else None, 'netget: smallest first digit of a reply code')
    n('codeFirstMax', mm.group(2) if mm else None, 'netget: largest first digit of a reply code')
    if not re.search(r'linein\.len > 3\) && \(\(linein\.s\[3\] == \' \'\) \|\| \(linein\.s\[3\] == \'-\'\)\)', b):
        g.broken.append('%s:netget: length/separator test changed' % f)
    n('netgetNulCheck', 1 if re.search(r"memchr\(linein\.s, '\\0', linein\.len\) == NULL", b) else 0,
      'netget: 1 iff a reply line containing a NUL byte is rejected as a syntax error')
    n('netgetFatalReset', 1 if re.search(r'case ECONNRESET:\s*case ETIMEDOUT:(?:\s*/\*.*?\*/)?\s*if \(terminate\)\s*dieerror\(errno\);', b, re.S) else 0,
      'netget: 1 iff errno ECONNRESET/ETIMEDOUT from net_read() ends the program when terminate is set')
    b = _body(g, f, 'dieerror')
    s('stTimedOut', _one(g, f, 'dieerror', b, r'case ETIMEDOUT:\s*write_status\(' + LIT + r'\)', 'timeout status'), 'dieerror(ETIMEDOUT)')
    s('stDied', _one(g, f, 'dieerror', b, r'case ECONNRESET:\s*write_status\(' + LIT + r'\)', 'reset status'), 'dieerror(ECONNRESET)')

    # ---- client.c -----------------------------------------------------------------------
    f = 'qremote/client.c'
    b = _body(g, f, 'checkreply')
    n('checkreplyDrainNonFatal', 1 if re.search(r'fatal = \(status != NULL\);', b) and len(re.findall(r'netget\(fatal\)', b)) == 2 and 'netget(1)' not in b else 0,
      'checkreply: 1 iff replies are read non-fatally when no status letters are given')
    n('maskNoText', _one(g, f, 'checkreply', b, r'\(m == 0\) && \(mask & (\d+)\)', 'mask bit "no text for 2xx"'), 'checkreply: mask bit that suppresses the text of a 2xx reply')

    # ---- envelope.c ---------------------------------------------------------------------
    f = 'qremote/envelope.c'
    b = _body(g, f, 'send_envelope')
    mm = re.search(r'mailerrmsg\[\]\s*=\s*\{\s*' + LIT + r',\s*rhost,\s*' + LIT + r',\s*NULL\s*\}', b)
    if not mm:
        g.broken.append('%s:send_envelope: mailerrmsg not found' % f)
    s('mailErr0', mm.group(1) if mm else None, 'send_envelope: mailerrmsg[0]')
    s('mailErr2', mm.group(2) if mm else None, 'send_envelope: mailerrmsg[2]')
    n('netmsgSize', _one(g, f, 'send_envelope', b, r'const char \*netmsg\[(\d+)\]', 'netmsg size'), 'send_envelope: const char *netmsg[N]')
    s('cmdMail', _one(g, f, 'send_envelope', b, r'netmsg\[\d+\]\s*=\s*\{\s*' + LIT + r',\s*sender\s*\}', 'MAIL FROM literal'), 'send_envelope: netmsg[0]')
    mm = re.search(r'smtpext & esmtp_size\) \{\s*netmsg\[lastmsg\+\+\] = ' + LIT + r';\s*ultostr\(msgsize, sizebuf\);\s*netmsg\[lastmsg\+\+\] = sizebuf;\s*\} else \{\s*netmsg\[lastmsg\+\+\] = ' + LIT + ';', b)
    if not mm:
        g.broken.append('%s:send_envelope: SIZE branch not found' % f)
    s('cmdSize', mm.group(1) if mm else None, 'send_envelope: SIZE parameter')
    s('cmdMailEnd', mm.group(2) if mm else None, 'send_envelope: end of MAIL FROM without SIZE')
    mm = re.search(r'\(recodeflag & 1\) \? ' + LIT + ' : ' + LIT, b)
    if not mm:
        g.broken.append('%s:send_envelope: BODY= not found' % f)
    s('cmdBody8', mm.group(1) if mm else None, 'send_envelope: BODY for 8bit mails')
    s('cmdBody7', mm.group(2) if mm else None, 'send_envelope: BODY for 7bit mails')
    mm = re.search(r'netmsg\[lastmsg\+\+\] = ' + LIT + r';\s*netmsg\[lastmsg\+\+\] = rcpts\[0\];\s*netmsg\[lastmsg\+\+\] = ' + LIT + r';\s*netmsg\[lastmsg\] = NULL;\s*net_write_multiline\(netmsg\);\s*lastmsg = 1;\s*netmsg\[0\] = ' + LIT + ';', b)
    if not mm:
        g.broken.append('%s:send_envelope: first pipelined batch not found' % f)
    s('cmdRcptAfterMail', mm.group(1) if mm else None, 'send_envelope: first RCPT batched with MAIL')
    s('cmdRcptEndCrlf', mm.group(2) if mm else None, 'send_envelope: end of a batch')
    s('cmdRcpt', mm.group(3) if mm else None, 'send_envelope: RCPT command')
    mm = re.search(r'\(i == rcptcount - 1\) \|\| \(\(i % (\d+)\) == (\d+)\)\) \{\s*netmsg\[lastmsg\+\+\] = ' + LIT + r';.*?\} else \{\s*netmsg\[lastmsg\+\+\] = ' + LIT + ';', b, re.S)
    if not mm:
        g.broken.append('%s:send_envelope: batch rule not found' % f)
    n('batchMod', mm.group(1) if mm else None, 'send_envelope: (i % N) == R ends a batch: N')
    n('batchRem', mm.group(2) if mm else None, 'send_envelope: (i % N) == R ends a batch: R')
    if mm and mm.group(3) != '>\\r\\n':
        g.broken.append('%s:send_envelope: batch end literal changed' % f)
    s('cmdRcptSep', mm.group(4) if mm else None, 'send_envelope: separator inside a batch')
    crs = re.findall(r'checkreply\(' + LIT + r', (\w+), (\d+)\)', b)
    mails = [c for c in crs if c[1] == 'mailerrmsg']
    rc = [c for c in crs if c[1] == 'NULL']
    if len(mails) != 2 or len(set(mails)) != 1 or len(rc) != 2 or len(set(rc)) != 1:
        g.broken.append('%s:send_envelope: checkreply() calls changed: %r' % (f, crs))
    s('lettersMail', mails[0][0] if mails else None, 'send_envelope: letters for the MAIL FROM reply')
    n('maskMail', mails[0][2] if mails else None, 'send_envelope: mask for the MAIL FROM reply')
    s('lettersRcpt', rc[0][0] if rc else None, 'send_envelope: letters for a RCPT TO reply')
    n('maskRcpt', rc[0][2] if rc else None, 'send_envelope: mask for a RCPT TO reply')
    if len(re.findall(r'checkreply\(NULL, NULL, 0\)', b)) != 1:
        g.broken.append('%s:send_envelope: drain call changed' % f)
    n('envelopeDrainStops', 1 if re.search(r'if \(checkreply\(NULL, NULL, 0\) < 0\)\s*break;', b) else 0,
      'send_envelope: 1 iff draining stops at the first reply that cannot be read')
    if len(re.findall(r'>= 300\)', b)) != 2 or len(re.findall(r'< 300\)', b)) != 2:
        g.broken.append('%s:send_envelope: acceptance thresholds changed' % f)
    mm = re.search(r'netmsg\[0\] = ' + LIT + r';\s*netmsg\[2\] = ' + LIT + r';\s*netmsg\[3\] = NULL;', b)
    if not mm or mm.group(1) != 'RCPT TO:<':
        g.broken.append('%s:send_envelope: non-pipelined RCPT not found' % f)
    s('cmdRcptEnd', mm.group(2) if mm else None, 'send_envelope: end of a non-pipelined RCPT')

    # ---- qrdata.c -----------------------------------------------------------------------
    f = 'qremote/qrdata.c'
    t = g.text(f) or ''
    mm = re.search(r'const char \*successmsg\[\]\s*=\s*\{NULL, ' + LIT + ', NULL, ' + LIT + ', ' + LIT + ', ' + LIT + ', ' + LIT + r', NULL\};', t)
    if not mm:
        g.broken.append('%s: successmsg initialiser not found' % f)
    for k, idx in enumerate((1, 3, 4, 5, 6)):
        s('success%d' % idx, mm.group(k + 1) if mm else None, 'qrdata.c: successmsg[%d]' % idx)
    b = _body(g, f, 'send_data')
    s('cmdData', _one(g, f, 'send_data', b, r'successmsg\[2\] = "";\s*netwrite\(' + LIT + r'\);', 'DATA command'), 'send_data: DATA')
    n('dataGoAhead', _one(g, f, 'send_data', b, r'if \(num != (\d+)\)', 'go-ahead code'), 'send_data: expected reply to DATA')
    mm = re.search(r'num >= (\d+) \? ' + LIT + ' : ' + LIT + r',\s*' + LIT + r',\s*linein\.s \+ 4 \};', b)
    if not mm:
        g.broken.append('%s:send_data: rejected DATA status not found' % f)
    n('dataPermMin', mm.group(1) if mm else None, 'send_data: replies >= N to DATA are permanent')
    s('stDataPerm', mm.group(2) if mm else None, 'send_data: permanent prefix')
    s('stDataTemp', mm.group(3) if mm else None, 'send_data: temporary prefix')
    s('stDataText', mm.group(4) if mm else None, 'send_data: rejected DATA text')
    s('successQp', _one(g, f, 'send_data', b, r'successmsg\[2\] = ' + LIT + r';\s*send_qp', 'qp note'), 'send_data: successmsg[2] after recoding')
    mm = re.search(r'if \(lastlf\) \{\s*netwrite\(' + LIT + r'\);\s*\} else \{\s*netwrite\(' + LIT + r'\);', b)
    if not mm:
        g.broken.append('%s:send_data: final dot not found' % f)
    s('cmdDot', mm.group(1) if mm else None, 'send_data: end of data after a line end')
    s('cmdCrlfDot', mm.group(2) if mm else None, 'send_data: end of data otherwise')
    mm = re.search(r'checkreply\(' + LIT + r', successmsg, (\d+)\);', b)
    if not mm:
        g.broken.append('%s:send_data: final checkreply not found' % f)
    s('lettersData', mm.group(1) if mm else None, 'send_data: letters for the reply to the end of data')
    n('maskData', mm.group(2) if mm else None, 'send_data: mask for the reply to the end of data')
    if not re.search(r'\(!\(smtpext & esmtp_8bitmime\) && \(recodeflag & recode_8bit\)\) \|\|\s*\(recodeflag & recode_long\)', b):
        g.broken.append('%s:send_data: recode condition changed' % f)
    hdr = g.text('include/qremote/qrdata.h') or ''
    for nm, lean in (('recode_8bit', 'recode8bit'), ('recode_long_line', 'recodeLongLine'), ('recode_long_header', 'recodeLongHeader')):
        mm = re.findall(r'%s = (0x[0-9a-f]+|\d+),' % nm, hdr)
        if len(mm) != 1:
            g.broken.append('include/qremote/qrdata.h: %s not found' % nm)
        n(lean, mm[0] if len(mm) == 1 else None, 'qrdata.h: ' + nm)

    # ---- qremote.c ----------------------------------------------------------------------
    f = 'qremote/qremote.c'
    b = _body(g, f, 'quitmsg')
    s('cmdQuit', _one(g, f, 'quitmsg', b, r'netwrite\(' + LIT + r'\);', 'QUIT'), 'quitmsg: QUIT')
    if not re.search(r"while \(\(linein\.len >= 4\) && \(linein\.s\[3\] == '-'\)\);", b):
        g.broken.append('%s:quitmsg: loop condition changed' % f)
    b = _body(g, f, 'err_mem')
    s('stNoMem', _one(g, f, 'err_mem', b, r'write_status\(' + LIT + r'\);', 'out of memory status'), 'err_mem')
    b = _body(g, f, 'main')
    s('stBadArgs', _one(g, f, 'main', b, r'rcptcount <= 0\) \{\s*log_write\([^;]*;\s*write_status\(' + LIT + r'\);', 'bad arguments status'), 'main: no recipients')
    s('stNoConnect', _one(g, f, 'main', b, r'if \(i < 0\) \{\s*write_status\(' + LIT + r'\);', 'cannot connect status'), 'main: connect_mx failed')
    if not re.search(r'if \(send_envelope\(recodeflag, argv\[2\], argc - 3, argv \+ 3\) != 0\)\s*net_conn_shutdown\(shutdown_clean\);', b):
        g.broken.append('%s:main: envelope/data sequencing changed' % f)

    # ---- conn_mx.c ----------------------------------------------------------------------
    f = 'qremote/conn_mx.c'
    b = _body(g, f, 'connect_mx')
    mm = re.findall(r'default:\s*/\*.*?\*/\s*daneinfo_free\(d, tlsa\);\s*(?:write_status\(' + LIT + r'\);\s*)?net_conn_shutdown\(shutdown_abort\);', b, re.S)
    # alternative shape of that branch: any other error on the first greeting line moves on to the next MX, too
    other_next = re.search(r'default:\s*/\*.*?\*/\s*if \(socketd >= 0\)\s*drop_connection\(\);\s*continue;\s*\}', b, re.S)
    if len(mm) != 1 and not other_next:
        g.broken.append('%s:connect_mx: greeting error default branch not found' % f)
    n('greetOtherNextMx', 1 if other_next and not mm else 0,
      'connect_mx: 1 iff an unexpected error while waiting for the greeting moves on to the next MX (no exit in that branch)')
    s('stGreetFail', mm[0] if mm and mm[0] else '', 'connect_mx: status before giving up on an unexpected greeting error (empty: none written)')
    n('greetTimeoutNextMx', 1 if re.search(r'case ETIMEDOUT:\s*(?:/\*.*?\*/\s*)?quitmsg_if_net\(s\);\s*continue;', b, re.S) else 0,
      'connect_mx: 1 iff a time-out while waiting for the greeting moves on to the next MX (quitmsg_if_net(s); continue)')
    n('greetingCode', _one(g, f, 'connect_mx', b, r'if \(\(s != (\d+)\) \|\| \(flagerr != 0\)\)', 'greeting code'), 'connect_mx: expected greeting code')

    # ---- greeting.c / greeting.h --------------------------------------------------------
    f = 'qremote/greeting.c'
    b = _body(g, f, 'greeting')
    s('cmdEhlo', _one(g, f, 'greeting', b, r'cmd\[\] = \{ ' + LIT + r', heloname\.s, NULL \};', 'EHLO'), 'greeting: EHLO')
    s('cmdHelo', _one(g, f, 'greeting', b, r'cmd\[0\] = ' + LIT + ';', 'HELO'), 'greeting: HELO')
    codes = re.findall(r's == (\d+)\)', b)
    if len(codes) != 3 or len(set(codes)) != 1:
        g.broken.append('%s:greeting: success code tests changed: %r' % (f, codes))
    n('heloOk', codes[0] if codes else None, 'greeting: code accepted for EHLO/HELO')
    mm = re.search(r'\(s >= (\d+)\) && \(s <= (\d+)\)\)\s*return -EDONE;', b)
    if not mm:
        g.broken.append('%s:greeting: HELO error window not found' % f)
    n('heloErrMin', mm.group(1) if mm else None, 'greeting: HELO replies in [min,max] are EDONE')
    n('heloErrMax', mm.group(2) if mm else None, 'greeting: HELO replies in [min,max] are EDONE')
    b = _body(g, f, 'esmtp_check_extension')
    tbl = re.search(r'extensions\[\] = \{(.*?)\{ \.name = NULL \}', b, re.S)
    rows = []
    if tbl:
        body = re.sub(r'#ifdef CHUNKING.*?#endif', '', tbl.group(1), flags=re.S)   # CHUNKING is off in the baseline build
        for mm in re.finditer(r'\{ \.name = ' + LIT + r',\s*\.len = (\d+),\s*\.func = (\w+)\s*\}', body):
            nm = c_unescape(mm.group(1))
            if len(nm) != int(mm.group(2)):
                g.broken.append('%s:esmtp_check_extension: .len of %r is not its length' % (f, nm))
            cb = {'NULL': 0, 'cb_size': 1, 'cb_auth': 2, 'cb_utf8': 3}.get(mm.group(3))
            if cb is None:
                g.broken.append('%s:esmtp_check_extension: unknown callback %s' % (f, mm.group(3)))
                cb = 0
            rows.append((nm, cb))
    if len(rows) < 4:
        g.broken.append('%s:esmtp_check_extension: extension table not found' % f)
    items.append(('extTable', 'def extTable : List (List UInt8 × Nat) := [' + ', '.join('(%s, %d)' % (lean_bytes(nm), cb) for nm, cb in rows) + ']',
                  'esmtp_check_extension: (name, callback) with callback 0 = none, 1 = cb_size, 2 = cb_auth, 3 = cb_utf8; bit = 1 << index'))
    hdr = g.text('include/qremote/greeting.h') or ''
    for nm, lean in (('esmtp_size', 'extSize'), ('esmtp_pipelining', 'extPipelining'), ('esmtp_starttls', 'extStarttls'), ('esmtp_8bitmime', 'ext8bitmime')):
        mm = re.findall(r'%s = (0x[0-9a-f]+|\d+),' % nm, hdr)
        if len(mm) != 1:
            g.broken.append('include/qremote/greeting.h: %s not found' % nm)
        n(lean, mm[0] if len(mm) == 1 else None, 'greeting.h: ' + nm)
    mm = re.findall(r'#define EDONE (\d+)', g.text('include/qremote/qremote.h') or '')
    n('edone', mm[0] if len(mm) == 1 else None, 'qremote.h: EDONE')
    # every Gen file shares the namespace QsmtpModel.Gen: keep this one's names apart
    return lean_module(items).replace('namespace QsmtpModel.Gen\n', 'namespace QsmtpModel.Gen.Qr\n').replace('end QsmtpModel.Gen\n', 'end QsmtpModel.Gen.Qr\n')


GENERATORS = {'QrProto.lean': gen_qrproto}
