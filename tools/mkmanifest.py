#!/usr/bin/env python3
"""Writes MANIFEST.json from the table below (kept here so that the file is always valid)."""
import json, os
V = os.path.dirname(os.path.dirname(os.path.abspath(__file__)))
import glob
CLAIMED = {}
for f in sorted(glob.glob(os.path.join(V, 'tools', 'claims', 'C*.json'))):
    CLAIMED[os.path.basename(f)[:-5]] = json.load(open(f))
NA = {}
props = [json.loads(l)['id'] for l in open(os.path.join(V, 'properties.jsonl'))]
m = {
 'version': 1,
 'setup_cmd': 'cd /verif && python3 tools/setup.py',
 'hooks': {'guard': 'DERDAKON_QSMTP_VERIF', 'enable': 'harness translation units are compiled with -DDERDAKON_QSMTP_VERIF and #include the repository sources; no hook inside /repo is needed so far',
           'baseline_off_cmd': '/verif/tools/baseline.sh', 'source_commits': [], 'add_only': True},
 'engines': [{'name': 'lean-model', 'path': 'lean/', 'serves_properties': sorted(CLAIMED), 'kind_free_text': 'Lean 4 models, theorems and line-protocol driver'},
             {'name': 'harness', 'path': 'harness/', 'serves_properties': sorted(CLAIMED), 'kind_free_text': 'C differential harnesses including the repository sources, ASan/UBSan'}],
 'checks': [], 'not_applicable': [],
 'notes': 'Technique family: machine-checked proof in Lean 4. See DESIGN.md. known_findings.json lists recorded findings and fixes.',
}
for p in props:
    if p in CLAIMED:
        c = CLAIMED[p]
        m['checks'].append({'property_id': p, 'quick_cmd': './check %s --tier quick' % p, 'thorough_cmd': './check %s --tier thorough' % p,
                            'evidence_file': '/verif/evidence/%s.json' % p, 'replay_cmd_template': './check %s --replay {path}' % p,
                            'engine': 'lean-model', 'level_claimed': {'category': 'proof', 'text': c['text'], 'design_ref': c['design']},
                            'level_note': c['note'], 'technique': c['technique']})
    else:
        m['not_applicable'].append({'property_id': p, 'reason': NA.get(p, 'not yet claimed: model, theorems and correspondence harness for this property are still being built (see DESIGN.md section 10); no check is registered rather than a weaker technique')})
json.dump(m, open(os.path.join(V, 'MANIFEST.json'), 'w'), indent=1)
print('claimed', sorted(CLAIMED))
