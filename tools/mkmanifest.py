#!/usr/bin/env python3
"""Writes MANIFEST.json from the table below (kept here so that the file is always valid)."""
import json, os
V = os.path.dirname(os.path.dirname(os.path.abspath(__file__)))
CLAIMED = {
 'C10': dict(text='Lean theorems writen_valid / writen_no_fault / valid_reply_no_bare_crlf over a faithful model of net_writen (all first parts within the contract, all embedded strings of any length, blanks anywhere): valid folded reply, <= 512 octets per line, complete text, no fault. Contract provider templates_in_contract is re-proved over the reply templates extracted from the source on every run. Model tied to lib/netio.c by a differential run (ASan/UBSan harness including the real file) on every check.',
             note='Trusted: Lean kernel; axioms propext, Classical.choice, Quot.sound; tools/extract.py; the differential harness and its generators. Modelled not verified: net_writen, net_write_multiline bodies. Outside: write(2), the nomail text used as first part (filters/nomail.c).',
             technique='Lean 4 proof over hand model + differential correspondence with the C function + regenerated constants', design='6/C10'),
}
NA = {}
props = [json.loads(l)['id'] for l in open(os.path.join(V, 'properties.jsonl'))]
m = {
 'version': 1,
 'setup_cmd': 'cd /verif && python3 tools/setup.py',
 'hooks': {'guard': 'DERDAKON_QSMTP_VERIF', 'enable': 'harness translation units are compiled with -DDERDAKON_QSMTP_VERIF and #include the repository sources; no hook inside /repo is needed so far',
           'baseline_off_cmd': '/verif/tools/baseline.sh', 'source_commits': [], 'add_only': True},
 'engines': [{'name': 'lean-model', 'path': 'lean/', 'serves_properties': sorted(CLAIMED), 'kind_free_text': 'Lean 4 models, theorems and line-protocol driver'},
             {'name': 'harness', 'path': 'harness/', 'serves_properties': sorted(CLAIMED), 'kind_free_text': 'C differential harnesses including the repository sources, ASan/UBSan'}],
 'checks': [], 'not_applicable': [],
 'notes': 'Technique family: machine-checked proof in Lean 4. See DESIGN.md. known_findings.json lists recorded findings and fixes.',
}
for p in props:
    if p in CLAIMED:
        c = CLAIMED[p]
        m['checks'].append({'property_id': p, 'quick_cmd': './check %s --tier quick' % p, 'thorough_cmd': './check %s --tier thorough' % p,
                            'evidence_file': '/verif/evidence/%s.json' % p, 'replay_cmd_template': './check %s --replay {path}' % p,
                            'engine': 'lean-model', 'level_claimed': {'category': 'proof', 'text': c['text'], 'design_ref': c['design']},
                            'level_note': c['note'], 'technique': c['technique']})
    else:
        m['not_applicable'].append({'property_id': p, 'reason': NA.get(p, 'not yet claimed: model, theorems and correspondence harness for this property are still being built (see DESIGN.md section 10); no check is registered rather than a weaker technique')})
json.dump(m, open(os.path.join(V, 'MANIFEST.json'), 'w'), indent=1)
print('claimed', sorted(CLAIMED))
